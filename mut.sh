#!/bin/bash
# usage: mut.sh <prop> <file-rel-to-repo> <sed-expr>   : applies a mutation, runs the check, reverts.
prop=$1; f=/repo/$2; shift 2
cp $f /tmp/mut_backup.go
sed -i "$@" $f
if cmp -s $f /tmp/mut_backup.go; then echo "MUTATION DID NOT APPLY"; fi
(cd /repo && go build ./$(dirname ${f#/repo/}) 2>&1 | head -3)
cp /verif/evidence/$prop.json /tmp/mut_evidence.bak 2>/dev/null
/verif/bin/govc check --prop $prop 2>&1 | grep -E "FAILED|UNDECIDED|VACUOUS|violations" | cut -c1-220
cp /tmp/mut_backup.go $f
cp /tmp/mut_evidence.bak /verif/evidence/$prop.json 2>/dev/null
