#!/usr/bin/env python3
# Regenerates MANIFEST.json from the table below (claimed checks) and properties.jsonl (everything else -> not_applicable).
import json, subprocess
props=[json.loads(l) for l in open('/verif/properties.jsonl')]
CLAIMS = json.load(open('/verif/claims.json'))
hooks=subprocess.run("git -C /repo log --format=%H --grep='^verif:' ",shell=True,capture_output=True,text=True).stdout.split()
m={"version":1,
 "setup_cmd":"cd /verif/govc && GOFLAGS=-mod=mod GOPROXY=off GOSUMDB=off GOTOOLCHAIN=local go build -o /verif/bin/govc .",
 "hooks":{"guard":"verif","enable":"-tags verif: adds comment-only contract files (zz_verif_contracts.go, `//go:build verif`) next to the code; no executable code is added, so nothing changes at run time",
   "baseline_off_cmd":"cd /repo && go test -vet=off -count=1 -timeout 25m ./...","source_commits":hooks,"add_only":True},
 "engines":[{"name":"govc","path":"/verif/govc","serves_properties":sorted(CLAIMS.keys()),"kind_free_text":"home-made deductive verifier for Go: verification conditions generated from go/ssa of /repo's current working tree (real code, not a model), Gobra-style contracts kept in tag-guarded comment-only files in /repo, every obligation discharged by z3 5.1 / cvc5 1.0.3 / z3 4.8.12"}],
 "checks":[],"notes":"see DESIGN.md; contracts live in /repo/**/zz_verif_contracts.go (tag verif); prelude (assumed contracts) in /verif/specs; replay harnesses in /verif/replay; known_findings.json lists fixed/known defects",
 "not_applicable":[]}
for p in props:
    pid=p['id']
    if pid in CLAIMS:
        c=CLAIMS[pid]
        m["checks"].append({"property_id":pid,"quick_cmd":"./check %s quick"%pid,"thorough_cmd":"./check %s thorough"%pid,
          "evidence_file":"/verif/evidence/%s.json"%pid,"replay_cmd_template":"cat {path}","engine":"govc",
          "level_claimed":{"category":"proof","text":c["text"],"design_ref":c.get("design_ref","DESIGN.md section 5 (%s)"%pid)},
          "level_note":c["note"],"technique":"contract-based deductive verification: weakest-precondition style VCs over go/ssa of the real functions, contracts as structured comments, discharged by z3/cvc5"})
    else:
        reason=json.load(open('/verif/na_reasons.json')).get(pid,"designed (DESIGN.md section 5), contracts not yet discharged by the engine; no check is claimed until every obligation is green on the unchanged tree")
        m["not_applicable"].append({"property_id":pid,"reason":reason})
json.dump(m,open('/verif/MANIFEST.json','w'),indent=1)
print("claimed:",sorted(CLAIMS.keys()))
