#!/bin/bash
# usage: confirm_seed.sh Cxx [name]  -- confirms a sub-agent's seeded change in a fresh scratch worktree, then stores it under /verif/seeded/<name>
# Steps: (1) fresh worktree of the pinned snapshot, (2) demo passes WITHOUT the patch, (3) apply patch, build, existing tests of touched packages pass,
# (4) demo FAILS with the patch, (5) run the /verif check against /repo with the patch applied and record whether it is caught.
id=$1; name=${2:-$1}
export GOFLAGS=-mod=mod GOPROXY=off GOSUMDB=off GOTOOLCHAIN=local
src=${SEED_SRC:-/tmp/seed/$id.out}
wt=/tmp/confirm_$name
log=/tmp/confirm_$name.log
: > $log
cd /repo && git worktree remove --force $wt 2>/dev/null; git worktree add -q --detach $wt ${SEED_BASE:-5132009} || exit 2
cd $wt
# place demo files
place() {
  for f in $(find $src/demo -name '*.go' | sort -u); do
    [ -f "$f" ] || continue
    rel=${f#$src/demo/}
    if [ "$rel" != "$(basename $f)" ]; then mkdir -p $(dirname $rel); cp $f $rel; echo "placed $f -> $rel" >> $log; continue; fi
    dest=$(python3 - "$src" "$f" <<'PY'
import json,sys,os,re
src,f=sys.argv[1],sys.argv[2]
base=os.path.basename(f)
dest=None
# PLACEMENT.txt or meta.json hints
for hint in ['PLACEMENT.txt','placement.txt','README.md','README.txt','README']:
    p=os.path.join(src,'demo',hint)
    if os.path.exists(p):
        for m in re.findall(r'([A-Za-z0-9_./-]*/'+re.escape(base)+r')', open(p).read()):
            if not m.startswith('/'): dest=m
            elif '/tmp/seed' in m: dest=re.sub(r'^/tmp/seed2?/C\d+(\.out/demo)?/','',m)
if dest is None:
    meta=json.load(open(os.path.join(src,'meta.json')))
    txt=json.dumps(meta)
    ms=[m for m in re.findall(r'([A-Za-z0-9_./-]*/'+re.escape(base)+r')', txt) if not m.startswith('/')]
    if ms: dest=ms[0]
    else:
        # fall back: package dir from demo_cmd
        m=re.search(r'\./([A-Za-z0-9_/.-]+?)/?(\s|$|\.\.\.)', meta.get('demo_cmd',''))
        if m: dest=m.group(1).rstrip('/')+'/'+base
print(dest or '')
PY
)
    if [ -z "$dest" ]; then echo "cannot place $f" >> $log; continue; fi
    mkdir -p $(dirname $dest); cp $f $dest; echo "placed $f -> $dest" >> $log
  done
}
place
demo=$(python3 -c "
import json,re
d=json.load(open('$src/meta.json'))['demo_cmd']
d=re.sub(r'cp\s+<[^>]*>\S*\s+\S+\s*(&&|;)\s*','',d)
print(d)")
echo "== demo without patch: $demo" >> $log
( eval "$demo" ) >> $log 2>&1; r0=$?
echo "exit=$r0" >> $log
git apply $src/patch.diff >> $log 2>&1 || { echo "PATCH DOES NOT APPLY" | tee -a $log; }
pkgs=$(git diff --name-only | grep '\.go$' | grep -v _test.go | xargs -n1 dirname | sort -u)
echo "== build + existing tests of: $pkgs" >> $log
bt=0
for p in $pkgs; do
  go build ./$p/ >> $log 2>&1 || bt=1
  case $p in
    server|server/api|server/schedule|server/cluster|server/schedulers|tests*) echo "(skipping slow/known-failing full test run of $p; agent-reported subset only)" >> $log;;
    *) timeout 900 go test -vet=off -count=1 -run '^Test[^S]|^TestS[^e]' ./$p/ >> $log 2>&1 || bt=1;;
  esac
done
echo "existing-tests-exit=$bt" >> $log
echo "== demo with patch" >> $log
( eval "$demo" ) >> $log 2>&1; r1=$?
echo "exit=$r1" >> $log
cd /repo && git worktree remove --force $wt
# check against /repo
cp /verif/evidence/${id:0:3}.json /tmp/confirm_$name.evidence.bak 2>/dev/null
cd /repo && git apply $src/patch.diff && (cd /verif && ./check ${id:0:3} quick > /tmp/confirm_$name.check 2>&1; echo "check-exit=$?" >> $log); git -C /repo checkout -- .
cp /tmp/confirm_$name.evidence.bak /verif/evidence/${id:0:3}.json 2>/dev/null
grep -E "FAILED|UNDECIDED|VACUOUS|violations" /tmp/confirm_$name.check | cut -c1-200 >> $log
echo "RESULT $name: demo_without=$r0 existing_tests=$bt demo_with=$r1 $(grep check-exit $log)"
if [ $r0 -eq 0 ] && [ $bt -eq 0 ] && [ $r1 -ne 0 ]; then
  mkdir -p /verif/seeded/$name; cp $src/patch.diff /verif/seeded/$name/; cp -r $src/demo /verif/seeded/$name/; 
  python3 - "$src" "$name" "$log" <<'PY'
import json,sys
src,name,log=sys.argv[1:]
m=json.load(open(src+'/meta.json'))
L=open(log).read()
m['confirmed']={'demo_without_patch':'pass','existing_tests_with_patch':'pass','demo_with_patch':'fail','how':'confirm_seed.sh in a fresh scratch worktree of the pinned snapshot (removed afterwards)'}
import re
mm=re.search(r'check-exit=(\d+)',L)
m['verif_check']={'exit':int(mm.group(1)) if mm else None,'failed_obligations':[l.split()[1] for l in L.splitlines() if l.startswith('FAILED') or l.startswith('UNDECIDED') or l.startswith('VACUOUS')]}
json.dump(m,open('/verif/seeded/%s/meta.json'%name,'w'),indent=1)
PY
  echo "stored /verif/seeded/$name"
else
  echo "NOT CONFIRMED - see $log"
fi
