// Replay harness (adopted from a seed sub-agent's tests against the UNMODIFIED code) for
// core.StoreInfo.MergeLabels/post.served-labels-untouched (C14): a put-store that fails - the storage write fails, or
// the strict label check rejects it - leaves the served record unchanged. Before the fix MergeLabels wrote the new
// label values into the label objects of the SERVED store (and compacted its slice in place) before validation and save.
// Injected via -overlay.
package cluster


import (
	"context"
	"errors"
	"strings"
	"testing"

	"github.com/pingcap/kvproto/pkg/metapb"
	"github.com/tikv/pd/pkg/mock/mockid"
	"github.com/tikv/pd/server/core"
	"github.com/tikv/pd/server/kv"
)

// faultKV fails every Save whose key contains failKey (when failKey != "").
type faultKV struct {
	kv.Base
	failKey string
}

func (f *faultKV) Save(key, value string) error {
	if f.failKey != "" && strings.Contains(key, f.failKey) {
		return errors.New("injected storage failure")
	}
	return f.Base.Save(key, value)
}

func extraNewCluster(t *testing.T, base kv.Base) (*RaftCluster, *core.Storage) {
	_, opt, err := newTestScheduleConfig()
	if err != nil {
		t.Fatal(err)
	}
	storage := core.NewStorage(base)
	rc := newTestRaftCluster(context.Background(), mockid.NewIDAllocator(), opt, storage, core.NewBasicCluster())
	return rc, storage
}

func extraStoreMeta(id uint64, addr string, labels ...*metapb.StoreLabel) *metapb.Store {
	return &metapb.Store{Id: id, Address: addr, State: metapb.StoreState_Up, Version: "2.0.0", Labels: labels}
}

// loadStored reloads every store record (meta + weights) from storage, the way a restarted PD does.
func loadStored(t *testing.T, storage *core.Storage) map[uint64]*core.StoreInfo {
	res := make(map[uint64]*core.StoreInfo)
	if err := storage.LoadStores(func(s *core.StoreInfo) { res[s.GetID()] = s }); err != nil {
		t.Fatal(err)
	}
	return res
}

func TestVerifReplayFailedPutStoreLabels(t *testing.T) {
	fkv := &faultKV{Base: kv.NewMemoryKV()}
	rc, storage := extraNewCluster(t, fkv)
	if err := rc.PutStore(extraStoreMeta(1, "127.0.0.1:1", &metapb.StoreLabel{Key: "zone", Value: "z1"})); err != nil {
		t.Fatal(err)
	}
	fkv.failKey = "/s/" // fail the store record write
	err := rc.PutStore(extraStoreMeta(1, "127.0.0.1:1", &metapb.StoreLabel{Key: "zone", Value: "z2"}))
	if err == nil {
		t.Fatal("expected the injected storage failure to be reported")
	}
	fkv.failKey = ""
	served := rc.GetStore(1).GetLabelValue("zone")
	stored := loadStored(t, storage)[1].GetLabelValue("zone")
	if served != "z1" || stored != "z1" {
		t.Fatalf("failed put-store changed the served record: served zone=%q stored zone=%q (want both z1)", served, stored)
	}
}

func TestVerifReplayRejectedPutStoreLabels(t *testing.T) {
	rc, storage := extraNewCluster(t, kv.NewMemoryKV())
	cfg := rc.opt.GetReplicationConfig().Clone()
	cfg.LocationLabels = []string{"zone"}
	cfg.StrictlyMatchLabel = true
	rc.opt.SetReplicationConfig(cfg)
	if err := rc.PutStore(extraStoreMeta(1, "127.0.0.1:1", &metapb.StoreLabel{Key: "zone", Value: "z1"})); err != nil {
		t.Fatal(err)
	}
	err := rc.PutStore(extraStoreMeta(1, "127.0.0.1:1",
		&metapb.StoreLabel{Key: "zone", Value: "z2"}, &metapb.StoreLabel{Key: "bogus", Value: "x"}))
	if err == nil {
		t.Fatal("expected the strict label check to reject the request")
	}
	served := rc.GetStore(1).GetLabelValue("zone")
	stored := loadStored(t, storage)[1].GetLabelValue("zone")
	if served != stored {
		t.Fatalf("rejected put-store changed the served record: served zone=%q stored zone=%q", served, stored)
	}
}
