// Replay harness for core.RegionsInfo.SetRegion/assert@update#1.key-stable-in-sub-indexes: an item is shared between
// the main index and the per-store sub-indexes and is keyed by its region's start key in each of them, so replacing its
// region by one with another range while a sub-index still holds it leaves that sub-index with an entry at a stale
// position. The harness runs every history of up to 4 puts from a small menu (range changes that keep the peers,
// merges that swallow a neighbour, splits) and compares the per-store leader/follower counts and sizes and the random
// picks with a linear scan over the cached regions. Injected into package core via -overlay.
package core

import (
	"testing"

	"github.com/pingcap/kvproto/pkg/metapb"
)

func verifSubRegion(id uint64, start, end string, size int64) *RegionInfo {
	peers := []*metapb.Peer{{Id: id*10 + 1, StoreId: 1}, {Id: id*10 + 2, StoreId: 2}, {Id: id*10 + 3, StoreId: 3}}
	return NewRegionInfo(&metapb.Region{Id: id, StartKey: []byte(start), EndKey: []byte(end), Peers: peers}, peers[int(id)%3], SetApproximateSize(size))
}

func verifSubCheck(r *RegionsInfo) string {
	type stat struct {
		lc, fc int
		ls, fs int64
		lids   map[uint64]bool
	}
	want := map[uint64]*stat{1: {lids: map[uint64]bool{}}, 2: {lids: map[uint64]bool{}}, 3: {lids: map[uint64]bool{}}}
	for _, region := range r.GetRegions() {
		for _, p := range region.GetVoters() {
			s := want[p.GetStoreId()]
			if p.GetId() == region.GetLeader().GetId() {
				s.lc++
				s.ls += region.GetApproximateSize()
				s.lids[region.GetID()] = true
			} else {
				s.fc++
				s.fs += region.GetApproximateSize()
			}
		}
	}
	if r.TreeLen() != r.GetRegionCount() {
		return "indexed regions != cached regions"
	}
	for store, s := range want {
		if r.GetStoreLeaderCount(store) != s.lc || r.GetStoreFollowerCount(store) != s.fc {
			return "per-store leader/follower count differs from a scan over the cached regions"
		}
		if r.GetStoreLeaderRegionSize(store) != s.ls || r.GetStoreFollowerRegionSize(store) != s.fs {
			return "per-store leader/follower size differs from a scan over the cached regions"
		}
		for i := 0; i < 16; i++ {
			if re := r.RandLeaderRegion(store, nil); re != nil && (!s.lids[re.GetID()] || r.GetRegion(re.GetID()) != re) {
				return "random leader pick returned a region that is not cached (stale sub-index entry)"
			}
		}
		// every cached region led by this store must be found in the store's sub-index by its own key
		for id := range s.lids {
			region := r.GetRegion(id)
			if t := r.leaders[store]; t == nil || t.find(region) == nil || t.find(region).region != region {
				return "a cached region is not found under its own start key in its leader sub-index"
			}
		}
	}
	return ""
}

func TestVerifReplaySubIndexKeyStability(t *testing.T) {
	menu := []func() *RegionInfo{
		func() *RegionInfo { return verifSubRegion(1, "", "b", 10) },
		func() *RegionInfo { return verifSubRegion(1, "a", "b", 11) },
		func() *RegionInfo { return verifSubRegion(2, "b", "c", 20) },
		func() *RegionInfo { return verifSubRegion(2, "", "c", 31) },
		func() *RegionInfo { return verifSubRegion(2, "b", "", 32) },
		func() *RegionInfo { return verifSubRegion(3, "c", "", 30) },
		func() *RegionInfo { return verifSubRegion(3, "c", "d", 15) },
		func() *RegionInfo { return verifSubRegion(3, "a", "d", 16) },
	}
	n := len(menu)
	histories := 0
	for code := 0; code < n*n*n*n; code++ {
		r := NewRegionsInfo()
		var hist []int
		for c, k := code, 0; k < 4; c, k = c/n, k+1 {
			hist = append(hist, c%n)
			r.SetRegion(menu[c%n]())
			if msg := verifSubCheck(r); msg != "" {
				var desc []string
				for _, h := range hist {
					x := menu[h]()
					desc = append(desc, string(rune('0'+x.GetID()))+"["+string(x.GetStartKey())+","+string(x.GetEndKey())+")")
				}
				t.Fatalf("after the puts %v: %s", desc, msg)
			}
		}
		histories++
	}
	t.Logf("%d histories", histories)
}
