// Replay harness for server.Server.SetReplicationConfig (post.failed-update-restores-the-default-rule, C18): with placement
// rules on, a replication-config update edits the default rule (count and location labels) and then persists the options;
// when that write fails the update is reported as failed and the served configuration must be exactly as before. Before the
// fix only the rule's count was restored: the default rule kept the rejected location labels, and every later update was
// refused with "the default rules do not consistent with replication config". Runs inside the package's gocheck entry
// point (TestServer). Injected via -overlay.
package server

import (
	"context"
	"errors"
	"reflect"
	"strings"

	. "github.com/pingcap/check"
	"github.com/pingcap/kvproto/pkg/metapb"
	"github.com/pingcap/kvproto/pkg/pdpb"
	"github.com/tikv/pd/server/core"
	"github.com/tikv/pd/server/kv"
	"github.com/tikv/pd/server/schedule/placement"
)

type verifFailConfigKV struct {
	kv.Base
	fail bool
}

func (k *verifFailConfigKV) Save(key, value string) error {
	if k.fail && strings.Contains(key, "config") {
		return errors.New("injected storage failure")
	}
	return k.Base.Save(key, value)
}

type verifReplicationRollbackSuite struct{}

var _ = Suite(&verifReplicationRollbackSuite{})

func (s *verifReplicationRollbackSuite) TestVerifReplayReplicationRollback(c *C) {
	svr, cleanup, err := NewTestServer(c)
	c.Assert(err, IsNil)
	defer cleanup()
	mustWaitLeader(c, []*Server{svr})
	_, err = svr.Bootstrap(context.Background(), &pdpb.BootstrapRequest{
		Header: &pdpb.RequestHeader{ClusterId: svr.ClusterID()},
		Store:  &metapb.Store{Id: 1, Address: "127.0.0.1:1", Version: "4.0.0"},
		Region: &metapb.Region{Id: 2, Peers: []*metapb.Peer{{Id: 3, StoreId: 1}}, RegionEpoch: &metapb.RegionEpoch{ConfVer: 1, Version: 1}},
	})
	c.Assert(err, IsNil)
	c.Assert(svr.GetRaftCluster(), NotNil)
	old := svr.GetReplicationConfig()
	c.Assert(old.EnablePlacementRules, IsTrue)
	before := svr.GetRaftCluster().GetRuleManager().GetRule("pd", "default")
	c.Assert(before, NotNil)
	beforeCount, beforeLabels := before.Count, append([]string{}, before.LocationLabels...)

	fkv := &verifFailConfigKV{Base: svr.GetStorage().Base, fail: true}
	good := svr.GetStorage()
	svr.SetStorage(core.NewStorage(fkv))
	cfg := *old.Clone()
	cfg.MaxReplicas = old.MaxReplicas + 2
	cfg.LocationLabels = []string{"zone", "rack"}
	err = svr.SetReplicationConfig(cfg)
	svr.SetStorage(good)
	if err == nil {
		c.Skip("the injected failure did not hit the update; probe not applicable")
	}
	after := svr.GetRaftCluster().GetRuleManager().GetRule("pd", "default")
	served := svr.GetReplicationConfig()
	if served.MaxReplicas != old.MaxReplicas || !reflect.DeepEqual([]string(served.LocationLabels), []string(old.LocationLabels)) {
		c.Fatalf("failed update (%v) changed the served replication config: %+v -> %+v", err, old, served)
	}
	if after.Count != beforeCount || !reflect.DeepEqual(append([]string{}, after.LocationLabels...), beforeLabels) {
		c.Fatalf("failed update (%v) changed the served default rule: count %d labels %v -> count %d labels %v",
			err, beforeCount, beforeLabels, after.Count, after.LocationLabels)
	}
	// the rollback must have reached the storage too: a rule manager started on the same storage loads what is served
	fresh := placement.NewRuleManager(good, nil)
	c.Assert(fresh.Initialize(3, nil), IsNil)
	stored := fresh.GetRule("pd", "default")
	c.Assert(stored, NotNil)
	if stored.Count != after.Count || !reflect.DeepEqual(append([]string{}, stored.LocationLabels...), append([]string{}, after.LocationLabels...)) {
		c.Fatalf("after the failed update the STORED default rule (count %d labels %v) differs from the served one (count %d labels %v): the rollback was not written",
			stored.Count, stored.LocationLabels, after.Count, after.LocationLabels)
	}
	// and the next, valid update must not be refused because of leftovers
	cfg2 := *old.Clone()
	cfg2.MaxReplicas = old.MaxReplicas + 2
	c.Assert(svr.SetReplicationConfig(cfg2), IsNil)
}
