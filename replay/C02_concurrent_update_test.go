// Replay harnesses (written by a seed sub-agent against the UNMODIFIED code, adopted here) for two known findings:
//  tso.timestampOracle.UpdateTimestamp/assert@saveTimestamp#1.never-below-the-window-already-saved (C02): the periodic
//    update saves its window without tsoMux and overwrites the larger window an accepted reset has just saved;
//  tso.timestampOracle.UpdateTimestamp/assert@setTSOPhysical#1.not-reset-meanwhile (C01): an update in flight while the
//    allocator is reset re-initialises the zeroed memory without SyncTimestamp.
// Both force the interleaving with a wrapper around the etcd KV client; embedded etcd. Injected via -overlay.
package tso

import (
	"fmt"
	"sync"
	"testing"
	"time"

	"github.com/pingcap/kvproto/pkg/pdpb"
	"github.com/tikv/pd/pkg/etcdutil"
	"github.com/tikv/pd/pkg/tsoutil"
	"github.com/tikv/pd/server/election"
	"go.etcd.io/etcd/clientv3"
	"go.etcd.io/etcd/embed"
)

// These tests run against the UNMODIFIED code and show two interleavings in
// which property C01 (unique, real-time ordered timestamps) is violated.

type extraEnv struct {
	etcd   *embed.Etcd
	cfg    *embed.Config
	client *clientv3.Client
}

func newExtraEnv(t *testing.T) *extraEnv {
	cfg := etcdutil.NewTestSingleConfig()
	etcd, err := embed.StartEtcd(cfg)
	if err != nil {
		t.Fatal(err)
	}
	client, err := clientv3.New(clientv3.Config{Endpoints: []string{cfg.LCUrls[0].String()}})
	if err != nil {
		t.Fatal(err)
	}
	<-etcd.Server.ReadyNotify()
	return &extraEnv{etcd: etcd, cfg: cfg, client: client}
}

func (e *extraEnv) close() {
	e.client.Close()
	e.etcd.Close()
	etcdutil.CleanConfig(e.cfg)
}

func (e *extraEnv) oracle(rootPath string, saveInterval time.Duration) *timestampOracle {
	return &timestampOracle{
		client:                 e.client,
		rootPath:               rootPath,
		saveInterval:           saveInterval,
		updatePhysicalInterval: 50 * time.Millisecond,
		maxResetTSGap:          func() time.Duration { return 24 * time.Hour },
		tsoMux:                 &tsoObject{},
		dcLocation:             GlobalDCLocation,
	}
}

func composed(ts pdpb.Timestamp) uint64 { return tsoutil.GenerateTS(&ts) }

// Extra 1: UpdateTimestamp (allocator daemon goroutine) vs. a manual reset-ts
// (admin API goroutine). resetUserTimestamp persists its window while holding
// the tso mutex, UpdateTimestamp persists its window without it, and
// saveTimestamp blindly overwrites the key. If the update decided to extend the
// window before the reset stored the new lastSavedTime, and its etcd txn commits
// after the reset's txn, the persisted window moves BACKWARDS to about
// now+saveInterval while the in-memory physical time is now+1h. The allocator
// keeps granting timestamps around now+1h; after a leader change the successor
// loads the small window and grants timestamps that are an hour smaller.
func TestVerifReplayUpdateOverwritesResetWindow(t *testing.T) {
	env := newExtraEnv(t)
	defer env.close()

	const leaderKey = "/extra1/leader"
	la := election.NewLeadership(env.client, leaderKey, "extra1-A")
	if err := la.Campaign(120, "A"); err != nil {
		t.Fatal(err)
	}
	const saveInterval = 100 * time.Millisecond

	for attempt := 0; attempt < 400; attempt++ {
		root := fmt.Sprintf("/extra1/tso-%d", attempt)
		a := env.oracle(root, saveInterval)
		if err := a.SyncTimestamp(la); err != nil {
			t.Fatal(err)
		}
		if _, err := a.getTS(la, 1, 0); err != nil {
			t.Fatal(err)
		}
		w0 := a.lastSavedTime.Load().(time.Time)
		// wait until the window is nearly used up, so that the next periodic
		// update has to extend it
		time.Sleep(time.Until(w0) - 500*time.Microsecond)
		userTS := tsoutil.ComposeTS(time.Now().Add(time.Hour).UnixNano()/int64(time.Millisecond), 0)

		var wg sync.WaitGroup
		var resetErr, updateErr error
		wg.Add(2)
		go func() { // admin: reset-ts to now+1h (well inside max-reset-ts-gap)
			defer wg.Done()
			resetErr = a.resetUserTimestamp(la, userTS, false)
		}()
		go func() { // allocator daemon tick
			defer wg.Done()
			time.Sleep(time.Duration(attempt%8) * 50 * time.Microsecond)
			updateErr = a.UpdateTimestamp(la)
		}()
		wg.Wait()
		if resetErr != nil || updateErr != nil {
			t.Fatalf("reset: %v update: %v", resetErr, updateErr)
		}
		persisted, err := a.loadTimestamp()
		if err != nil {
			t.Fatal(err)
		}
		physical, _ := a.getTSO()
		if !persisted.Before(physical) {
			continue // the interleaving did not happen this time
		}
		// both operations were accepted, yet the persisted window is behind the
		// in-memory physical time
		tsA, err := a.getTS(la, 1, 0)
		if err != nil {
			t.Fatal(err)
		}
		t.Logf("attempt %d: persisted window %v is BEHIND the in-memory physical %v; A grants %d.%d",
			attempt, persisted, physical, tsA.Physical, tsA.Logical)
		// further periodic updates do not repair it (clock is behind the physical, logical is small)
		for i := 0; i < 3; i++ {
			if err := a.UpdateTimestamp(la); err != nil {
				t.Fatal(err)
			}
		}
		persisted2, _ := a.loadTimestamp()
		physical2, _ := a.getTSO()
		if !persisted2.Before(physical2) {
			t.Fatalf("window got repaired")
		}
		// leader hand-over: A steps down regularly, B takes over
		a.ResetTimestamp()
		la.Reset()
		lb := election.NewLeadership(env.client, leaderKey, "extra1-B")
		if err := lb.Campaign(120, "B"); err != nil {
			t.Fatal(err)
		}
		defer lb.Reset()
		b := env.oracle(root, saveInterval)
		if err := b.SyncTimestamp(lb); err != nil {
			t.Fatal(err)
		}
		tsB, err := b.getTS(lb, 1, 0)
		if err != nil {
			t.Fatal(err)
		}
		if composed(tsB) <= composed(tsA) {
			t.Fatalf("C01 violated on unmodified code: A granted %d.%d, then (after a regular hand-over) B granted %d.%d, which is %dms SMALLER",
				tsA.Physical, tsA.Logical, tsB.Physical, tsB.Logical, tsA.Physical-tsB.Physical)
		}
		t.Fatalf("unexpected: successor is ahead")
	}
	t.Log("interleaving not reproduced in 400 attempts")
}

// Extra 2: a periodic UpdateTimestamp that is in flight while the allocator is
// reset (ResetAllocatorGroup: allocator.Reset() runs BEFORE leadership.Reset(),
// so the leader-guarded save still succeeds) publishes its `next` with
// setTSOPhysical after ResetTimestamp zeroed the memory: ZeroTime < next, so the
// guard "make sure the ts won't fall back" lets it through. The allocator is
// "initialized" again without any SyncTimestamp. When this member campaigns
// again later, Leadership.Check() is true from the moment the lease is granted,
// i.e. before Initialize()/SyncTimestamp ran, and getTS serves from the stale
// resurrected physical time: smaller than what the leader in between granted.
func TestVerifReplayStaleUpdateResurrectsResetAllocator(t *testing.T) {
	env := newExtraEnv(t)
	defer env.close()

	const (
		leaderKey    = "/extra2/leader"
		root         = "/extra2/tso"
		saveInterval = 60 * time.Millisecond
	)
	la := election.NewLeadership(env.client, leaderKey, "extra2-A")
	if err := la.Campaign(120, "A"); err != nil {
		t.Fatal(err)
	}
	a := env.oracle(root, saveInterval)

	resurrected := false
	for attempt := 0; attempt < 400 && !resurrected; attempt++ {
		if err := a.SyncTimestamp(la); err != nil {
			t.Fatal(err)
		}
		if _, err := a.getTS(la, 1, 0); err != nil {
			t.Fatal(err)
		}
		w := a.lastSavedTime.Load().(time.Time)
		time.Sleep(time.Until(w) - 500*time.Microsecond)
		var wg sync.WaitGroup
		wg.Add(1)
		go func() { // allocator daemon tick, has to extend the window => one etcd txn
			defer wg.Done()
			_ = a.UpdateTimestamp(la)
		}()
		time.Sleep(time.Duration(100+(attempt%8)*100) * time.Microsecond)
		a.ResetTimestamp() // first half of ResetAllocatorGroup
		wg.Wait()
		if a.isInitialized() {
			resurrected = true
			t.Logf("attempt %d: allocator is initialized again after ResetTimestamp", attempt)
		}
	}
	if !resurrected {
		t.Log("interleaving not reproduced in 400 attempts")
		return
	}
	la.Reset() // second half of ResetAllocatorGroup
	stalePhysical, _ := a.getTSO()

	// B leads for a while
	lb := election.NewLeadership(env.client, leaderKey, "extra2-B")
	if err := lb.Campaign(120, "B"); err != nil {
		t.Fatal(err)
	}
	b := env.oracle(root, saveInterval)
	if err := b.SyncTimestamp(lb); err != nil {
		t.Fatal(err)
	}
	time.Sleep(100 * time.Millisecond)
	if err := b.UpdateTimestamp(lb); err != nil {
		t.Fatal(err)
	}
	tsB, err := b.getTS(lb, 1, 0)
	if err != nil {
		t.Fatal(err)
	}
	b.ResetTimestamp()
	lb.Reset()

	// A wins the next election; a request arrives after Campaign() and before
	// Initialize() (server.campaignLeader / campaignAllocatorLeader call them in
	// this order).
	if err := la.Campaign(120, "A"); err != nil {
		t.Fatal(err)
	}
	defer la.Reset()
	tsA, err := a.getTS(la, 1, 0)
	if err != nil {
		t.Logf("stale physical %v, request rejected: %v", stalePhysical, err)
		return
	}
	if composed(tsA) <= composed(tsB) {
		t.Fatalf("C01 violated on unmodified code: B granted %d.%d and stepped down, then A (re-elected, not yet synchronized) granted %d.%d, which is %dms SMALLER",
			tsB.Physical, tsB.Logical, tsA.Physical, tsA.Logical, tsB.Physical-tsA.Physical)
	}
}
