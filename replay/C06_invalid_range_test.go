// Replay harness for cluster.RaftCluster.processRegionHeartbeat/pre@(*BasicCluster).PutRegion#1.valid-range:
// nothing between the gRPC handler and BasicCluster.PutRegion checks that a reported region has start < end.
// A region whose range is empty or inverted (start >= end, end not empty) is indexed under its start key but
// regionTree.remove cannot find it again (it does not "contain" its own start key), so the next put of the same
// id with another range leaves the shared item in the tree while its key changes. Injected into package core.
package core

import (
	"testing"

	"github.com/pingcap/kvproto/pkg/metapb"
)

func verifReplayRegion(id uint64, start, end string, ver uint64) *RegionInfo {
	return NewRegionInfo(&metapb.Region{Id: id, StartKey: []byte(start), EndKey: []byte(end),
		RegionEpoch: &metapb.RegionEpoch{Version: ver, ConfVer: 1},
		Peers:       []*metapb.Peer{{Id: id*10 + 1, StoreId: 1}}}, &metapb.Peer{Id: id*10 + 1, StoreId: 1})
}

func TestVerifReplayInvalidRangeRegion(t *testing.T) {
	bc := NewBasicCluster()
	accepted := map[uint64]*RegionInfo{}
	put := func(r *RegionInfo) {
		if _, err := bc.PreCheckPutRegion(r); err != nil {
			return // a rejected put must simply change nothing
		}
		for _, o := range bc.PutRegion(r) {
			delete(accepted, o.GetID())
		}
		accepted[r.GetID()] = r
	}
	put(verifReplayRegion(1, "a", "c", 1))
	put(verifReplayRegion(2, "k", "k", 1)) // empty range [k,k): accepted without complaint
	put(verifReplayRegion(3, "m", "p", 1))
	// the same id later reports a sane range (e.g. after a merge); it is newer than everything it overlaps
	put(verifReplayRegion(2, "a", "z", 5))

	for id, r := range accepted {
		if got := bc.GetRegion(id); got != r {
			t.Errorf("region %d [%q,%q) was accepted and not displaced but is not served afterwards: %v", id, r.GetStartKey(), r.GetEndKey(), got)
		}
	}
	if bc.Regions.Len() != bc.Regions.TreeLen() {
		t.Errorf("id map holds %d regions but the key index holds %d", bc.Regions.Len(), bc.Regions.TreeLen())
	}
	regions := bc.ScanRange([]byte(""), []byte(""), 0)
	for i := 0; i+1 < len(regions); i++ {
		a, b := regions[i], regions[i+1]
		if len(a.GetEndKey()) == 0 || string(a.GetEndKey()) > string(b.GetStartKey()) {
			t.Errorf("served regions overlap: %d [%q,%q) and %d [%q,%q)", a.GetID(), a.GetStartKey(), a.GetEndKey(), b.GetID(), b.GetStartKey(), b.GetEndKey())
		}
	}
	if bc.GetRegion(2) != nil {
		for _, id := range []uint64{1, 3} {
			if r := bc.GetRegion(id); r != nil {
				t.Errorf("region %d [%q,%q) is overlapped by the accepted region 2 [a,z) but still served", id, r.GetStartKey(), r.GetEndKey())
			}
		}
	}
}
