// Replay harness (adopted from a seed sub-agent's test against the UNMODIFIED code) for
// replication.ModeManager.tickDR/post.sync-only-through-the-rechecking-switch (C19): sync_recover -> sync only after every
// region has reported integrity under the CURRENT state id. A configuration update (new label key) that lands right after
// the tick's updateProgress switches to async under a new id; before the fix the tick then overwrote that with SYNC under
// yet another id although no region ever reported under the new one. The interleaving is forced with a ScanRegions hook
// and RWMutex writer queueing. Injected via -overlay.
package replication

import (
	"context"
	"testing"
	"time"

	"github.com/pingcap/kvproto/pkg/metapb"
	pb "github.com/pingcap/kvproto/pkg/replication_modepb"
	"github.com/tikv/pd/pkg/mock/mockcluster"
	"github.com/tikv/pd/pkg/typeutil"
	"github.com/tikv/pd/server/config"
	"github.com/tikv/pd/server/core"
	"github.com/tikv/pd/server/kv"
)

func extraRegion(id uint64, start, end string, state pb.RegionReplicationState, stateID uint64) *core.RegionInfo {
	peer := &metapb.Peer{Id: id*10 + 1, StoreId: 1}
	meta := &metapb.Region{
		Id:          id,
		StartKey:    []byte(start),
		EndKey:      []byte(end),
		Peers:       []*metapb.Peer{peer},
		RegionEpoch: &metapb.RegionEpoch{ConfVer: 1, Version: 1},
	}
	return core.NewRegionInfo(meta, peer, core.SetReplicationStatus(&pb.RegionReplicationStatus{
		State:   state,
		StateId: stateID,
	}))
}

func extraConf() config.ReplicationModeConfig {
	return config.ReplicationModeConfig{ReplicationMode: modeDRAutoSync, DRAutoSync: config.DRAutoSyncReplicationConfig{
		LabelKey:         "zone",
		Primary:          "zone1",
		DR:               "zone2",
		PrimaryReplicas:  2,
		DRReplicas:       1,
		WaitStoreTimeout: typeutil.Duration{Duration: time.Minute},
		WaitSyncTimeout:  typeutil.Duration{Duration: time.Minute},
	}}
}

// hookCluster lets the test run code while the background tick is inside
// updateProgress() (i.e. at a well defined point of tickDR()).
type hookCluster struct {
	*mockcluster.Cluster
	onScan func()
}

func (c *hookCluster) ScanRegions(startKey, endKey []byte, limit int) []*core.RegionInfo {
	if c.onScan != nil {
		f := c.onScan
		c.onScan = nil
		f()
	}
	return c.Cluster.ScanRegions(startKey, endKey, limit)
}

// EXTRA 1 (unmodified code): tickDR() decides "recovery finished" from the
// state/state id it saw before updateProgress(), and drSwitchToSync() does not
// re-check the state under the lock. An UpdateConfig() (here: the label key is
// changed, which switches to async under a NEW state id) that lands between
// updateProgress() and drSwitchToSync() is overwritten: the manager goes
// async(Y) -> sync(Z) although no region ever reported under Y.
func TestVerifReplaySyncOverridesConfigSwitch(t *testing.T) {
	ctx, cancel := context.WithCancel(context.Background())
	defer cancel()

	store := core.NewStorage(kv.NewMemoryKV())
	mc := mockcluster.NewCluster(ctx, config.NewTestOptions())
	mc.AddLabelsStore(1, 1, map[string]string{"zone": "zone1", "dc": "zone1"})
	mc.AddLabelsStore(2, 1, map[string]string{"zone": "zone1", "dc": "zone1"})
	mc.AddLabelsStore(3, 1, map[string]string{"zone": "zone2", "dc": "zone2"})
	cluster := &hookCluster{Cluster: mc}
	rep, err := NewReplicationModeManager(extraConf(), store, cluster, nil)
	if err != nil {
		t.Fatal(err)
	}
	if err := rep.drSwitchToSyncRecover(); err != nil {
		t.Fatal(err)
	}
	recoverID := rep.drAutoSync.StateID
	// the whole key space reports integrity under the sync_recover state id
	mc.PutRegion(extraRegion(1, "", "", pb.RegionReplicationState_INTEGRITY_OVER_LABEL, recoverID))

	updated := make(chan error, 1)
	cluster.onScan = func() {
		// The tick holds the read lock here. Start the config update; it
		// queues on the write lock and runs as soon as updateProgress()
		// returns, i.e. before the tick reaches drSwitchToSync().
		started := make(chan struct{})
		go func() {
			newConf := extraConf()
			newConf.DRAutoSync.LabelKey = "dc"
			close(started)
			updated <- rep.UpdateConfig(newConf)
		}()
		<-started
		time.Sleep(300 * time.Millisecond)
	}

	rep.tickDR()
	if err := <-updated; err != nil {
		t.Fatal(err)
	}

	st := rep.GetReplicationStatus().GetDrAutoSync()
	t.Logf("served status after the tick: label=%s state=%s id=%d (sync_recover id was %d)",
		st.GetLabelKey(), st.GetState(), st.GetStateId(), recoverID)
	if st.GetLabelKey() != "dc" {
		t.Fatal("config update did not happen")
	}
	// The label key was switched, which put the manager in async under a new
	// id. No region has reported anything under the new label/new id, so
	// 'sync' must not be served.
	if st.GetState() == pb.DRAutoSyncState_SYNC {
		t.Fatalf("state is SYNC (id %d) right after the label key switch to async; no region reported integrity under the new state id",
			st.GetStateId())
	}
}

// EXTRA 2 (unmodified code): the decision "every region recovered" is taken by
// tickDR() with `estimateProgress() == 1.0` on a float32. With 2^24 or more
// regions already checked and a single unrecovered region left, the ratio
// 16777216/16777217 rounds to exactly 1.0 and sync is declared.
// (The cursor of a huge, almost finished scan is injected instead of creating
// 16.7M regions in the mock cluster; everything else goes through tickDR.)
