// Replay harness (adopted from a sub-agent test against the UNMODIFIED code) for election.lease.IsExpired
// (post.a-closed-lease-is-expired-whatever-the-deadline-says, C03): Close() zeroes the local deadline and revokes the lease,
// but the keep-alive loop of the same lease may still deliver an answer that etcd gave before the revoke and store
// start+TTL back: Leadership.Check() was true again for a whole TTL on a revoked lease - a resigned member granting
// timestamps while another member has campaigned successfully. Deterministic, with a fake clientv3.Lease. Injected via -overlay.
package election

import (
	"context"
	"sync"
	"sync/atomic"
	"testing"
	"time"

	"go.etcd.io/etcd/clientv3"
	"go.etcd.io/etcd/etcdserver/api/v3rpc/rpctypes"
)

// Defect 1: a resigned (closed + revoked) lease comes back to life.
//
// lease.Close() stores the zero time into expireTime and then revokes the lease, but the
// KeepAlive loop of the same lease is usually still running (Member.ResetLeader,
// AllocatorManager.ResetAllocatorGroup and Leadership.DeleteLeaderKey all close the lease
// without stopping the keep-alive context first). A KeepAliveOnce that the etcd server
// answered before it processed the revoke is delivered to that loop after Close() and the
// loop stores "start+TTL" into expireTime again. From then on Leadership.Check() is true
// for a whole TTL although the lease is revoked and the leader key is deleted, i.e. a
// second member can campaign successfully while this one still "holds" the leadership.

// fakeLessor models the etcd lease server: a keep-alive that reached the server before the
// revoke is answered with the full TTL, one that reaches it afterwards gets ErrLeaseNotFound.
// The first keep-alive answer is held back "on the wire" until the test releases it.
type fakeLessor struct {
	clientv3.Lease
	ttl      int64
	revoked  int32
	once     sync.Once
	inFlight chan struct{}
	release  chan struct{}
}

func (f *fakeLessor) Grant(ctx context.Context, ttl int64) (*clientv3.LeaseGrantResponse, error) {
	f.ttl = ttl
	return &clientv3.LeaseGrantResponse{ID: 7, TTL: ttl}, nil
}

func (f *fakeLessor) Revoke(ctx context.Context, id clientv3.LeaseID) (*clientv3.LeaseRevokeResponse, error) {
	atomic.StoreInt32(&f.revoked, 1)
	return &clientv3.LeaseRevokeResponse{}, nil
}

func (f *fakeLessor) KeepAliveOnce(ctx context.Context, id clientv3.LeaseID) (*clientv3.LeaseKeepAliveResponse, error) {
	// The server handles the request now.
	if atomic.LoadInt32(&f.revoked) == 1 {
		return nil, rpctypes.ErrLeaseNotFound
	}
	first := false
	f.once.Do(func() { first = true })
	if first {
		close(f.inFlight)
		// The answer travels back to the client.
		select {
		case <-f.release:
		case <-ctx.Done():
			return nil, ctx.Err()
		}
	}
	return &clientv3.LeaseKeepAliveResponse{ID: id, TTL: f.ttl}, nil
}

func (f *fakeLessor) Close() error { return nil }

func TestVerifReplayClosedLeaseStaysExpired(t *testing.T) {
	ctx, cancel := context.WithCancel(context.Background())
	defer cancel()
	f := &fakeLessor{inFlight: make(chan struct{}), release: make(chan struct{})}
	l := &lease{Purpose: "defect1", client: clientv3.NewCtxClient(ctx), lease: f}
	if err := l.Grant(3); err != nil {
		t.Fatal(err)
	}
	ls := &Leadership{purpose: "defect1"}
	ls.setLease(l)
	if !ls.Check() {
		t.Fatal("a freshly granted lease must be valid")
	}
	// The leader keeps its lease alive, exactly as campaignLeader / campaignAllocatorLeader do.
	go ls.Keep(ctx)
	<-f.inFlight // a keep-alive has been handled by the server, its answer is on the way

	// The leader resigns (ResetLeader / ResetAllocatorGroup -> Leadership.Reset -> lease.Close).
	ls.Reset()
	if ls.Check() {
		t.Fatal("a resigned leadership must not be valid")
	}
	if atomic.LoadInt32(&f.revoked) != 1 {
		t.Fatal("the lease should have been revoked")
	}

	// The answer of the keep-alive that preceded the revoke arrives now.
	close(f.release)
	time.Sleep(200 * time.Millisecond)
	if ls.Check() {
		t.Fatalf("DEFECT: the leadership was resigned and its lease revoked, but Check() is true again "+
			"(expireTime=%v); the member serves as leader for another TTL while the leader key is gone",
			l.expireTime.Load())
	}
}

// The same thing against a real (embedded) etcd: resign right after the keep-alive loop started
// (it sends its first KeepAliveOnce immediately), then look at Check() a little later.
