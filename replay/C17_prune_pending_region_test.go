// Replay harness for core.deleteRegion (post.through-the-region-storage): loading regions prunes stale / overlapped
// leftovers from storage; with the region storage as backend the pruned region must also leave the batch that is waiting
// to be flushed, otherwise the next flush writes it back and storage and cache disagree again (C17).
// History: A = region 1 [a,c) v1 and B = region 2 [a,c) v2 are saved and flushed, A is saved again (pending), a load
// into an empty cache keeps B and prunes A, then a flush. Injected via -overlay.
package core

import (
	"context"
	"testing"

	"github.com/pingcap/kvproto/pkg/metapb"
	"github.com/tikv/pd/server/kv"
)

func TestVerifReplayPrunePendingRegion(t *testing.T) {
	ctx, cancel := context.WithCancel(context.Background())
	defer cancel()
	rs, err := NewRegionStorage(ctx, t.TempDir(), nil)
	if err != nil {
		t.Fatal(err)
	}
	s := NewStorage(kv.NewMemoryKV(), WithRegionStorage(rs))
	s.SwitchToRegionStorage()
	defer s.Close()
	peers := []*metapb.Peer{{Id: 11, StoreId: 1}}
	a := &metapb.Region{Id: 1, StartKey: []byte("a"), EndKey: []byte("c"), RegionEpoch: &metapb.RegionEpoch{Version: 1, ConfVer: 1}, Peers: peers}
	b := &metapb.Region{Id: 2, StartKey: []byte("a"), EndKey: []byte("c"), RegionEpoch: &metapb.RegionEpoch{Version: 2, ConfVer: 1}, Peers: peers}
	for _, r := range []*metapb.Region{a, b} {
		if err := s.SaveRegion(r); err != nil {
			t.Fatal(err)
		}
	}
	if err := s.Flush(); err != nil {
		t.Fatal(err)
	}
	if err := s.SaveRegion(a); err != nil { // pending again
		t.Fatal(err)
	}
	bc := NewBasicCluster()
	if err := s.LoadRegions(bc.CheckAndPutRegion); err != nil {
		t.Fatal(err)
	}
	if err := s.Flush(); err != nil {
		t.Fatal(err)
	}
	var stored []uint64
	if err := s.LoadRegions(func(r *RegionInfo) []*RegionInfo { stored = append(stored, r.GetID()); return nil }); err != nil {
		t.Fatal(err)
	}
	if bc.GetRegionCount() != 1 || len(stored) != 1 || stored[0] != 2 {
		t.Fatalf("after load + flush the cache holds %d region(s) and storage holds %v: the pruned region 1 was written back", bc.GetRegionCount(), stored)
	}
}
