// Replay harness (adopted from a seed sub-agent's test against the UNMODIFIED code) for
// core.Storage.DeleteStore/post.the-weights-go-with-the-record (C14): put store 1, SetStoreWeight(1, 5, 7), remove, bury,
// RemoveTombStoneRecords, put store 1 again: after this SUCCESSFUL put the served weights are (1,1) but LoadStores returns
// (5,7) - DeleteStore removed the store key only and left the weight keys behind. Injected via -overlay.
package cluster


import (
	"context"
	"errors"
	"strings"
	"testing"

	"github.com/pingcap/kvproto/pkg/metapb"
	"github.com/tikv/pd/pkg/mock/mockid"
	"github.com/tikv/pd/server/core"
	"github.com/tikv/pd/server/kv"
)

// faultKV fails every Save whose key contains failKey (when failKey != "").
type faultKV2 struct {
	kv.Base
	failKey string
}

func (f *faultKV2) Save(key, value string) error {
	if f.failKey != "" && strings.Contains(key, f.failKey) {
		return errors.New("injected storage failure")
	}
	return f.Base.Save(key, value)
}

func extraNewCluster(t *testing.T, base kv.Base) (*RaftCluster, *core.Storage) {
	_, opt, err := newTestScheduleConfig()
	if err != nil {
		t.Fatal(err)
	}
	storage := core.NewStorage(base)
	rc := newTestRaftCluster(context.Background(), mockid.NewIDAllocator(), opt, storage, core.NewBasicCluster())
	return rc, storage
}

func extraStoreMeta(id uint64, addr string, labels ...*metapb.StoreLabel) *metapb.Store {
	return &metapb.Store{Id: id, Address: addr, State: metapb.StoreState_Up, Version: "2.0.0", Labels: labels}
}

// loadStored reloads every store record (meta + weights) from storage, the way a restarted PD does.
func loadStored(t *testing.T, storage *core.Storage) map[uint64]*core.StoreInfo {
	res := make(map[uint64]*core.StoreInfo)
	if err := storage.LoadStores(func(s *core.StoreInfo) { res[s.GetID()] = s }); err != nil {
		t.Fatal(err)
	}
	return res
}

func TestVerifReplayWeightSurvivesTombstoneCleanup(t *testing.T) {
	rc, storage := extraNewCluster(t, kv.NewMemoryKV())
	if err := rc.PutStore(extraStoreMeta(1, "127.0.0.1:1")); err != nil {
		t.Fatal(err)
	}
	if err := rc.SetStoreWeight(1, 5, 7); err != nil {
		t.Fatal(err)
	}
	if err := rc.RemoveStore(1, false); err != nil {
		t.Fatal(err)
	}
	rc.checkStores()
	if !rc.GetStore(1).IsTombstone() {
		t.Fatal("store 1 should be tombstone")
	}
	if err := rc.RemoveTombStoneRecords(); err != nil {
		t.Fatal(err)
	}
	if rc.GetStore(1) != nil {
		t.Fatal("store 1 should be gone")
	}
	if err := rc.PutStore(extraStoreMeta(1, "127.0.0.1:1")); err != nil {
		t.Fatal(err)
	}
	served := rc.GetStore(1)
	stored := loadStored(t, storage)[1]
	if served.GetLeaderWeight() != stored.GetLeaderWeight() || served.GetRegionWeight() != stored.GetRegionWeight() {
		t.Fatalf("after a SUCCESSFUL put-store served weights (%v,%v) != stored weights (%v,%v)",
			served.GetLeaderWeight(), served.GetRegionWeight(), stored.GetLeaderWeight(), stored.GetRegionWeight())
	}
}
