// Replay harness (adopted from a sub-agent test) for operator.CreateScatterRegionOperator (mode leader, C11): when no target
// store accepts a leader and the leader's own peer moves, no leader is vetted - before the fix a RANDOM target voter was
// named and forced, e.g. a reject-leader store. Injected via -overlay.
package schedule

import (
	"context"
	"testing"

	"github.com/tikv/pd/pkg/mock/mockcluster"
	"github.com/tikv/pd/server/config"
	"github.com/tikv/pd/server/schedule/operator"
	"github.com/tikv/pd/server/schedule/opt"
)

// Stores 1-3 are ordinary, stores 4-6 carry the label noleader=true and the cluster has the label property
// reject-leader {noleader: true}. Every region lives on stores 1,2,3. The scatter history of the group soon
// makes stores 4,5,6 the only candidates, so all three peers (including the leader's) move there. No target
// store accepts a leader, the leader's own peer does not stay, and the operator is still built - with the
// force-target-leader flag and a leader picked at random among stores 4,5,6.
func TestVerifReplayScatterForcedRandomLeaderScatterLeaderAllTargetsRejectLeader(t *testing.T) {
	ctx, cancel := context.WithCancel(context.Background())
	defer cancel()
	tc := mockcluster.NewCluster(ctx, config.NewTestOptions())
	tc.SetLabelPropertyConfig(config.LabelPropertyConfig{
		opt.RejectLeader: {{Key: "noleader", Value: "true"}},
	})
	for i := uint64(1); i <= 3; i++ {
		tc.AddRegionStore(i, 0)
	}
	for i := uint64(4); i <= 6; i++ {
		tc.AddLabelsStore(i, 0, map[string]string{"noleader": "true"})
	}

	scatterer := NewRegionScatterer(ctx, tc)
	const numRegions = 20
	bad := 0
	for id := uint64(1); id <= numRegions; id++ {
		region := tc.AddLeaderRegion(id, 1, 2, 3)
		op, err := scatterer.Scatter(region, "group")
		if err != nil {
			t.Fatal(err)
		}
		if op == nil {
			continue
		}
		leader := region.GetLeader().GetStoreId()
		for i := 0; i < op.Len(); i++ {
			if tl, ok := op.Step(i).(operator.TransferLeader); ok {
				leader = tl.ToStore
			}
		}
		if tc.GetOpts().CheckLabelProperty(opt.RejectLeader, tc.GetStore(leader).GetLabels()) {
			bad++
			if bad == 1 {
				t.Logf("region %d: %s", id, op)
			}
		}
	}
	if bad > 0 {
		t.Fatalf("%d of %d scatter operators transfer the leader to a reject-leader store", bad, numRegions)
	}
}
