// Replay harness (adopted from a sub-agent test) for tso.timestampOracle.loadTimestamp (C02): a stored window later than
// 2046-12-09 must not be ignored when a new holder synchronises. Embedded etcd. Injected via -overlay.
// Scratch test for property C02 (granted timestamps stay below the durably stored time window,
// the stored window never decreases, a new leader starts above everything granted before).
//
// Defect 1: loadTimestamp compares every persisted window with typeutil.ZeroTime through
// SubRealTimeByWallClock, i.e. through time.Time{}.UnixNano(), which is outside the int64 range and
// wraps to -6795364578871345152. "window - ZeroTime" therefore overflows to a NEGATIVE number for
// every window later than 2046-12-09 and such a window is treated as "not bigger than no window at all".
// The "persisted window far in the future" protection of SyncTimestamp (next = last + guard) is then
// skipped: the new leader starts from its own clock and overwrites the window with now+saveInterval.
package tso

import (
	"path"
	"testing"
	"time"

	"github.com/tikv/pd/pkg/etcdutil"
	"github.com/tikv/pd/pkg/typeutil"
	"github.com/tikv/pd/server/election"
	"go.etcd.io/etcd/clientv3"
	"go.etcd.io/etcd/embed"
)

func d1StartEtcd(t *testing.T) (*clientv3.Client, func()) {
	cfg := etcdutil.NewTestSingleConfig()
	etcd, err := embed.StartEtcd(cfg)
	if err != nil {
		t.Fatal(err)
	}
	<-etcd.Server.ReadyNotify()
	client, err := clientv3.New(clientv3.Config{Endpoints: []string{cfg.LCUrls[0].String()}})
	if err != nil {
		t.Fatal(err)
	}
	return client, func() {
		client.Close()
		etcd.Close()
		etcdutil.CleanConfig(cfg)
	}
}

func d1NewOracle(client *clientv3.Client, rootPath string) *timestampOracle {
	return &timestampOracle{
		client:                 client,
		rootPath:               rootPath,
		saveInterval:           3 * time.Second,
		updatePhysicalInterval: 50 * time.Millisecond,
		maxResetTSGap:          func() time.Duration { return 24 * time.Hour },
		dcLocation:             GlobalDCLocation,
		tsoMux:                 &tsoObject{},
	}
}

func d1StoredWindow(t *testing.T, client *clientv3.Client, key string) time.Time {
	resp, err := etcdutil.EtcdKVGet(client, key)
	if err != nil || len(resp.Kvs) != 1 {
		t.Fatalf("cannot read the stored window: %v %v", resp, err)
	}
	w, err := typeutil.ParseTimestamp(resp.Kvs[0].Value)
	if err != nil {
		t.Fatal(err)
	}
	return w
}

// takeOver models "the serving process stopped, another member takes over": the previous leader left the
// time window `window` in etcd and had granted timestamps up to (just below) it.
func d1TakeOver(t *testing.T, window time.Time) {
	client, clean := d1StartEtcd(t)
	defer clean()

	const rootPath = "/pd/d1"
	key := path.Join(rootPath, timestampKey)
	// What the previous leader (whose clock was far ahead) had durably stored, written exactly the way
	// saveTimestamp writes it.
	if _, err := client.Put(client.Ctx(), key, string(typeutil.Uint64ToBytes(uint64(window.UnixNano())))); err != nil {
		t.Fatal(err)
	}
	// The previous leader granted this timestamp (physical part strictly below its window).
	grantedBeforeMs := window.Add(-2*time.Second).UnixNano() / int64(time.Millisecond)

	leadership := election.NewLeadership(client, path.Join(rootPath, "leader"), "d1")
	if err := leadership.Campaign(5, "new-leader"); err != nil {
		t.Fatal(err)
	}
	defer leadership.Reset()
	oracle := d1NewOracle(client, rootPath)
	if err := oracle.SyncTimestamp(leadership); err != nil {
		t.Fatal(err)
	}
	ts, err := oracle.getTS(leadership, 1, 0)
	if err != nil {
		t.Fatal(err)
	}
	after := d1StoredWindow(t, client, key)
	t.Logf("window before take-over %v, after %v; granted before (ms) %d, first granted after (ms) %d",
		window.UTC(), after.UTC(), grantedBeforeMs, ts.GetPhysical())
	if after.Before(window) {
		t.Errorf("the stored time window went BACK from %v to %v", window.UTC(), after.UTC())
	}
	if ts.GetPhysical() <= grantedBeforeMs {
		t.Errorf("first timestamp after the take-over (physical %d ms) is not larger than a timestamp granted before (physical %d ms)",
			ts.GetPhysical(), grantedBeforeMs)
	}
}

// Control: a window 13 years ahead is honoured (passes on the current code).
func TestVerifReplayFarFutureWindowControlWindowIn2040(t *testing.T) {
	d1TakeOver(t, time.Date(2040, 1, 1, 0, 0, 0, 0, time.UTC))
}

// A window later than 2046-12-09 is silently ignored (FAILS on the current code).
func TestVerifReplayFarFutureWindowWindowIn2047(t *testing.T) {
	d1TakeOver(t, time.Date(2047, 1, 1, 0, 0, 0, 0, time.UTC))
}
