// Replay harness for server.Server.UpdateGCSafePoint/assert@SaveGCSafePoint#1.guarantee-mono (and post.stored-mono):
// two concurrent UpdateGCSafePoint requests against the real server; the storage is wrapped so that the FIRST
// save of the safe-point key is parked until the second request has completed. Schedule from the verifier's
// counterexample: A loads the old value, B loads, B saves a larger value and is acknowledged, A's save lands last.
// The stored safe point must never go below an acknowledged value. Injected into package server via -overlay.
package server

import (
	"context"
	"strings"
	"sync"
	"testing"
	"time"

	"github.com/pingcap/check"
	"github.com/pingcap/kvproto/pkg/metapb"
	"github.com/pingcap/kvproto/pkg/pdpb"
	"github.com/tikv/pd/server/core"
	"github.com/tikv/pd/server/kv"
)

type parkingKV struct {
	kv.Base
	mu      sync.Mutex
	parked  bool
	arrived chan struct{}
	release chan struct{}
}

func (p *parkingKV) Save(key, value string) error {
	if strings.HasSuffix(key, "gc/safe_point") {
		p.mu.Lock()
		first := !p.parked
		p.parked = true
		p.mu.Unlock()
		if first {
			close(p.arrived)
			select {
			case <-p.release:
			case <-time.After(3 * time.Second): // a serialised implementation never lets the second request through
			}
		}
	}
	return p.Base.Save(key, value)
}

// loadParkingKV parks the FIRST load of the safe-point key after the value has been read (a request that has read the
// stored value but not yet compared / saved): the other schedule of the same obligation.
type loadParkingKV struct {
	kv.Base
	mu      sync.Mutex
	parked  bool
	arrived chan struct{}
	release chan struct{}
}

func (p *loadParkingKV) Load(key string) (string, error) {
	v, err := p.Base.Load(key)
	if strings.HasSuffix(key, "gc/safe_point") {
		p.mu.Lock()
		first := !p.parked
		p.parked = true
		p.mu.Unlock()
		if first {
			close(p.arrived)
			select {
			case <-p.release:
			case <-time.After(3 * time.Second):
			}
		}
	}
	return v, err
}

type verifReplayC15 struct{}

func TestVerifReplayGCSafePointRace(t *testing.T) {
	res := check.Run(&verifReplayC15{}, &check.RunConf{Verbose: true})
	if !res.Passed() {
		t.Fatalf("--- FAIL: %s", res.String())
	}
}

func (s *verifReplayC15) TestRace(c *check.C) {
	svr, cleanup, err := NewTestServer(c)
	c.Assert(err, check.IsNil)
	defer cleanup()
	mustWaitLeader(c, []*Server{svr})
	_, err = svr.Bootstrap(context.Background(), &pdpb.BootstrapRequest{
		Header: &pdpb.RequestHeader{ClusterId: svr.ClusterID()},
		Store:  &metapb.Store{Id: 1, Address: "mock://verif-replay-1"},
		Region: &metapb.Region{Id: 2, RegionEpoch: &metapb.RegionEpoch{ConfVer: 1, Version: 1}, Peers: []*metapb.Peer{{Id: 3, StoreId: 1}}},
	})
	c.Assert(err, check.IsNil)
	pk := &parkingKV{Base: svr.storage.Base, arrived: make(chan struct{}), release: make(chan struct{})}
	orig := svr.storage
	svr.storage = core.NewStorage(pk)
	defer func() { svr.storage = orig }()

	update := func(v uint64) uint64 {
		resp, err := svr.UpdateGCSafePoint(context.Background(), &pdpb.UpdateGCSafePointRequest{
			Header: &pdpb.RequestHeader{ClusterId: svr.ClusterID()}, SafePoint: v})
		c.Assert(err, check.IsNil)
		return resp.GetNewSafePoint()
	}
	var wg sync.WaitGroup
	wg.Add(1)
	go func() { defer wg.Done(); update(7) }() // request A: parked inside its save
	<-pk.arrived
	done := make(chan uint64, 1)
	go func() { done <- update(10) }() // request B
	var ackB uint64
	select {
	case ackB = <-done:
	case <-time.After(4 * time.Second):
		ackB = <-done
	}
	close(pk.release)
	wg.Wait()
	stored, err := svr.storage.LoadGCSafePoint()
	c.Assert(err, check.IsNil)
	if stored < ackB {
		c.Errorf("request B was acknowledged safe point %d, but the stored safe point afterwards is %d: the GC safe point moved backwards", ackB, stored)
	}
	if got := update(0); got < ackB {
		c.Errorf("a later request is answered %d, below the value %d acknowledged before it began", got, ackB)
	}
}


func (s *verifReplayC15) TestRaceAfterLoad(c *check.C) {
	svr, cleanup, err := NewTestServer(c)
	c.Assert(err, check.IsNil)
	defer cleanup()
	mustWaitLeader(c, []*Server{svr})
	_, err = svr.Bootstrap(context.Background(), &pdpb.BootstrapRequest{
		Header: &pdpb.RequestHeader{ClusterId: svr.ClusterID()},
		Store:  &metapb.Store{Id: 1, Address: "mock://verif-replay-1"},
		Region: &metapb.Region{Id: 2, RegionEpoch: &metapb.RegionEpoch{ConfVer: 1, Version: 1}, Peers: []*metapb.Peer{{Id: 3, StoreId: 1}}},
	})
	c.Assert(err, check.IsNil)
	pk := &loadParkingKV{Base: svr.storage.Base, arrived: make(chan struct{}), release: make(chan struct{})}
	orig := svr.storage
	svr.storage = core.NewStorage(pk)
	defer func() { svr.storage = orig }()

	update := func(v uint64) uint64 {
		resp, err := svr.UpdateGCSafePoint(context.Background(), &pdpb.UpdateGCSafePointRequest{
			Header: &pdpb.RequestHeader{ClusterId: svr.ClusterID()}, SafePoint: v})
		c.Assert(err, check.IsNil)
		return resp.GetNewSafePoint()
	}
	var wg sync.WaitGroup
	wg.Add(1)
	go func() { defer wg.Done(); update(7) }() // request A: parked right after it has read the stored value
	<-pk.arrived
	done := make(chan uint64, 1)
	go func() { done <- update(10) }() // request B
	var ackB uint64
	select {
	case ackB = <-done:
	case <-time.After(4 * time.Second):
		ackB = <-done
	}
	close(pk.release)
	wg.Wait()
	stored, err := svr.storage.LoadGCSafePoint()
	c.Assert(err, check.IsNil)
	if stored < ackB {
		c.Errorf("request B was acknowledged safe point %d, but the stored safe point afterwards is %d: the GC safe point moved backwards", ackB, stored)
	}
}
