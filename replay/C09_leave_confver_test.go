// Replay harness for operator.ChangePeerV2Leave.ConfVerChanged/{inv#2.*,post.accounted-demote}:
// a region still in the joint state (the demoted peer is a DemotingVoter, not yet a learner) must not be
// accounted as having applied the "leave joint state" step. Injected into package operator via `go test -overlay`.
package operator

import (
	"testing"

	"github.com/pingcap/kvproto/pkg/metapb"
	"github.com/tikv/pd/server/core"
)

func TestVerifReplayLeaveJointConfVer(t *testing.T) {
	peers := []*metapb.Peer{
		{Id: 101, StoreId: 1, Role: metapb.PeerRole_Voter},
		{Id: 102, StoreId: 2, Role: metapb.PeerRole_IncomingVoter},
		{Id: 103, StoreId: 3, Role: metapb.PeerRole_DemotingVoter},
	}
	region := core.NewRegionInfo(&metapb.Region{Id: 1, Peers: peers, RegionEpoch: &metapb.RegionEpoch{ConfVer: 5, Version: 1}}, peers[0])
	step := ChangePeerV2Leave{
		PromoteLearners: nil,
		DemoteVoters:    []DemoteVoter{{ToStore: 3, PeerID: 103}},
	}
	if step.IsFinish(region) {
		t.Fatalf("harness error: the region is still in the joint state")
	}
	if got := step.ConfVerChanged(region); got != 0 {
		t.Errorf("the region is still in the joint state (peer 103 on store 3 is a DemotingVoter) but ConfVerChanged accounts for %d configuration change(s); want 0", got)
	}
	// control: after the region left the joint state the change is accounted
	peers2 := []*metapb.Peer{
		{Id: 101, StoreId: 1, Role: metapb.PeerRole_Voter},
		{Id: 102, StoreId: 2, Role: metapb.PeerRole_Voter},
		{Id: 103, StoreId: 3, Role: metapb.PeerRole_Learner},
	}
	region2 := core.NewRegionInfo(&metapb.Region{Id: 1, Peers: peers2, RegionEpoch: &metapb.RegionEpoch{ConfVer: 7, Version: 1}}, peers2[0])
	if got := step.ConfVerChanged(region2); got != 1 {
		t.Errorf("after leaving the joint state ConfVerChanged = %d, want 1", got)
	}
}
