// Replay harness for placement.buildRuleList (no-key-before-the-first-segment and the invariants that carry it):
// an update that leaves the keys below the smallest start key of all rules without any rule must be rejected and
// change nothing observable. The harness tries it through every kind of update (single rule, batch, bundle,
// delete) and sweeps a few start keys. Injected via -overlay.
package placement

import (
	"encoding/hex"
	"testing"

	"github.com/tikv/pd/server/core"
	"github.com/tikv/pd/server/kv"
)

func verifLeadingGapManager(t *testing.T) *RuleManager {
	m := NewRuleManager(core.NewStorage(kv.NewMemoryKV()), nil)
	if err := m.Initialize(3, []string{"zone"}); err != nil {
		t.Fatal(err)
	}
	return m
}

func verifServed(m *RuleManager) string {
	s := ""
	for _, r := range m.GetAllRules() {
		s += r.GroupID + "/" + r.ID + "[" + r.StartKeyHex + "," + r.EndKeyHex + ") "
	}
	return s
}

func TestVerifReplayLeadingGap(t *testing.T) {
	for _, start := range []string{"\x00", "a", "m", "\xff\xff"} {
		sh := hex.EncodeToString([]byte(start))
		gapRule := func() *Rule {
			return &Rule{GroupID: "pd", ID: "default", StartKeyHex: sh, Role: "voter", Count: 3}
		}
		updates := map[string]func(m *RuleManager) error{
			"SetRule": func(m *RuleManager) error { return m.SetRule(gapRule()) },
			"Batch": func(m *RuleManager) error {
				return m.Batch([]RuleOp{{Rule: gapRule(), Action: RuleOpAdd}})
			},
			"SetGroupBundle": func(m *RuleManager) error {
				return m.SetGroupBundle(GroupBundle{ID: "pd", Rules: []*Rule{gapRule()}})
			},
			"SetAllGroupBundles": func(m *RuleManager) error {
				return m.SetAllGroupBundles([]GroupBundle{{ID: "pd", Rules: []*Rule{gapRule()}}}, true)
			},
			"add-then-delete-default": func(m *RuleManager) error {
				r := gapRule()
				r.ID = "tail"
				if err := m.SetRule(r); err != nil {
					t.Fatalf("adding a rule next to the default rule must be accepted: %v", err)
				}
				return m.DeleteRule("pd", "default")
			},
		}
		for name, upd := range updates {
			m := verifLeadingGapManager(t)
			if name == "add-then-delete-default" {
				// the served state to compare with is the one after the accepted first step
				r := gapRule()
				r.ID = "tail"
				_ = m.SetRule(r)
			}
			before := verifServed(m)
			err := upd(m)
			probe := []byte{}
			if got := m.GetRulesByKey(probe); len(got) == 0 {
				t.Errorf("%s with start key %q: err=%v, and the key \"\" (below the first start key) is now served with NO rule; served before: %s, after: %s",
					name, start, err, before, verifServed(m))
				continue
			}
			if err == nil {
				t.Errorf("%s with start key %q: update accepted although keys below %q have no rule", name, start, start)
			} else if after := verifServed(m); after != before {
				t.Errorf("%s with start key %q: rejected (%v) but the served rules changed: %s -> %s", name, start, err, before, after)
			}
		}
	}
}
