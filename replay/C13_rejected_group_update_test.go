// Replay harness for placement.RuleManager.tryCommitPatch/post.rejected-update-leaves-rules-on-their-served-groups:
// a group update that is REJECTED by validation (the group would override the default rule with a learner-only rule)
// must not change what is served; before the fix the order reported by GetAllRules changed. Injected via -overlay.
package placement

import (
	"testing"

	"github.com/tikv/pd/server/core"
	"github.com/tikv/pd/server/kv"
)

func TestVerifReplayRejectedGroupUpdate(t *testing.T) {
	store := core.NewStorage(kv.NewMemoryKV())
	m := NewRuleManager(store, nil)
	if err := m.Initialize(3, []string{"zone"}); err != nil {
		t.Fatal(err)
	}
	if err := m.SetRule(&Rule{GroupID: "a", ID: "r1", Role: "learner", Count: 1}); err != nil {
		t.Fatal(err)
	}
	var before []string
	for _, r := range m.GetAllRules() {
		before = append(before, r.GroupID+"/"+r.ID)
	}
	err := m.SetRuleGroup(&RuleGroup{ID: "a", Index: 100, Override: true})
	if err == nil {
		t.Skip("update accepted; probe not applicable")
	}
	var after []string
	for _, r := range m.GetAllRules() {
		after = append(after, r.GroupID+"/"+r.ID)
	}
	t.Logf("rejected with %v; before %v after %v; group of a now %+v", err, before, after, m.GetRuleGroup("a"))
	for i := range before {
		if before[i] != after[i] {
			t.Fatalf("a REJECTED group update changed what is served: GetAllRules %v -> %v", before, after)
		}
	}
}
