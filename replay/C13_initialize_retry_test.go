// Replay harness for placement.RuleManager.Initialize/pre@(*RuleManager).loadRules#1 (loads-into-an-empty-configuration):
// an Initialize that failed after the rules were read (here: the read of the rule groups fails once) is retried on the
// same manager - as Server.SetReplicationConfig does when placement rules are switched on again. Before the fix the
// retry found every stored rule "duplicated" (the first attempt had left them in the configuration) and DELETED all of
// them from storage. Injected via -overlay.
package placement

import (
	"errors"
	"strings"
	"testing"

	"github.com/tikv/pd/server/core"
	"github.com/tikv/pd/server/kv"
)

type verifFaultKV struct {
	kv.Base
	failPrefix string
	fails      int
}

func (k *verifFaultKV) LoadRange(key, endKey string, limit int) ([]string, []string, error) {
	if k.fails > 0 && strings.HasPrefix(key, k.failPrefix) {
		k.fails--
		return nil, nil, errors.New("injected read failure")
	}
	return k.Base.LoadRange(key, endKey, limit)
}

func verifStoredRules(t *testing.T, s *core.Storage) int {
	n := 0
	if err := s.LoadRules(func(k, v string) { n++ }); err != nil {
		t.Fatal(err)
	}
	return n
}

func TestVerifReplayInitializeRetry(t *testing.T) {
	fault := &verifFaultKV{Base: kv.NewMemoryKV(), failPrefix: "rule_group"}
	store := core.NewStorage(fault)
	m1 := NewRuleManager(store, nil)
	if err := m1.Initialize(3, []string{"zone"}); err != nil {
		t.Fatal(err)
	}
	if err := m1.SetRule(&Rule{GroupID: "g", ID: "extra", Role: "learner", Count: 1}); err != nil {
		t.Fatal(err)
	}
	if n := verifStoredRules(t, store); n != 2 {
		t.Fatalf("setup: %d rules stored", n)
	}
	// a new leader: the first Initialize fails while reading the groups, the second succeeds
	m2 := NewRuleManager(store, nil)
	fault.fails = 1
	if err := m2.Initialize(3, []string{"zone"}); err == nil {
		t.Skip("the injected failure did not hit Initialize; probe not applicable")
	}
	if err := m2.Initialize(3, []string{"zone"}); err != nil {
		t.Fatalf("retry: %v", err)
	}
	if n := verifStoredRules(t, store); n != 2 {
		t.Errorf("after a failed and a retried Initialize %d rules are left in storage (2 were stored, %d are served)", n, len(m2.GetAllRules()))
	}
	m3 := NewRuleManager(store, nil)
	if err := m3.Initialize(3, []string{"zone"}); err != nil {
		t.Fatal(err)
	}
	if a, b := len(m2.GetAllRules()), len(m3.GetAllRules()); a != b {
		t.Errorf("a restarted PD loads %d rules, %d are being served", b, a)
	}
}
