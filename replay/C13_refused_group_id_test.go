// Replay harness (adopted from a sub-agent test) for placement.RuleManager.savePatch (group ids are checked before the first write, C13):
// an update refused because of a group id the storage will not take must write nothing - before the fix the rules of the
// update had already been written when the group was refused. Injected via -overlay.
package placement

import (
	"testing"

	"github.com/tikv/pd/server/core"
	"github.com/tikv/pd/server/kv"
)

// (extra, adjacent to the already repaired "rule-group ids with path syntax" finding)
// The repair refuses such group ids in Storage.SaveRuleGroup/DeleteRuleGroup, i.e. at the END of savePatch:
// the rules of the update have already been written by then. The update is refused, no storage write has
// failed, the served rules are unchanged - but the storage now holds the refused rules, retrying is refused
// again for ever, and the next restart serves rules that were never accepted.
func TestVerifReplayRefusedGroupIDWritesNothing(t *testing.T) {
	storage := core.NewStorage(kv.NewMemoryKV())
	m := NewRuleManager(storage, nil)
	if err := m.Initialize(3, nil); err != nil {
		t.Fatal(err)
	}
	served := m.GetAllRules()
	err := m.SetAllGroupBundles([]GroupBundle{{ID: "a/", Index: 1, Rules: []*Rule{
		{ID: "r", StartKeyHex: "10", EndKeyHex: "20", Role: Voter, Count: 5}}}}, false)
	if err == nil {
		t.Fatal("group id a/ accepted")
	}
	t.Log(err)
	if got := m.GetAllRules(); len(got) != len(served) {
		t.Fatalf("served changed: %v", got)
	}
	m2 := NewRuleManager(storage, nil)
	if err := m2.Initialize(3, nil); err != nil {
		t.Fatal(err)
	}
	if got := m2.GetAllRules(); len(got) != len(served) {
		t.Errorf("the update was refused (%v) and nothing failed in the storage, yet a restarted PD loads %v while %v is served", err, got, served)
	}
}
