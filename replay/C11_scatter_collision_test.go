// Replay harness for schedule.RegionScatterer.scatterRegion$1/... (two peers of one region assigned to one store):
// when a peer is relocated onto the store of another, not yet visited peer of the same region and that peer then has
// no candidate of its own (every other store is at the group's maximum), selectStore keeps it where it is, the
// target map loses an entry and the scatter operator drops a replica. Injected into package schedule via -overlay.
package schedule

import (
	"context"
	"testing"

	"github.com/tikv/pd/pkg/mock/mockcluster"
	"github.com/tikv/pd/server/config"
	"github.com/tikv/pd/server/versioninfo"
)

func verifScatterTrial(t *testing.T) string {
	ctx, cancel := context.WithCancel(context.Background())
	defer cancel()
	tc := mockcluster.NewCluster(ctx, config.NewTestOptions())
	tc.DisableFeature(versioninfo.JointConsensus)
	for _, id := range []uint64{1, 3, 4} {
		tc.AddRegionStore(id, 0)
	}
	scatterer := NewRegionScatterer(ctx, tc)
	const group = "g"
	// history: two regions of the group already sit on stores 1,3,4 (nothing moves, the per-group counts grow to 2)
	for i := uint64(0); i < 2; i++ {
		r := tc.AddLeaderRegion(100+i, 1, 3, 4)
		if op, err := scatterer.Scatter(r, group); err != nil {
			t.Fatal(err)
		} else if op != nil {
			ApplyOperator(tc, op)
		}
	}
	// a new empty store joins and receives a replica of region 1 (by balancing); no scatter history for it yet
	tc.AddRegionStore(2, 0)
	before := tc.AddLeaderRegion(1, 1, 2, 3)
	op, err := scatterer.Scatter(before, group)
	if err != nil {
		t.Fatal(err)
	}
	if op != nil {
		ApplyOperator(tc, op)
	}
	after := tc.GetRegion(1)
	if len(after.GetPeers()) != len(before.GetPeers()) {
		return "scatter changed the replica count: " + before.GetMeta().String() + " -> " + after.GetMeta().String()
	}
	if len(after.GetStoreIds()) != len(after.GetPeers()) {
		return "two peers on one store: " + after.GetMeta().String()
	}
	return ""
}

func TestVerifReplayScatterCollision(t *testing.T) {
	// the scatterer visits the peers in Go map order: repeat on fresh clusters, every run must keep 3 replicas
	for i := 0; i < 60; i++ {
		if msg := verifScatterTrial(t); msg != "" {
			t.Fatalf("trial %d: %s", i, msg)
		}
	}
}
