// Replay harness for server.Server.{SetLabelProperty,DeleteLabelProperty}/post.rollback: a label-property change
// that is rejected because the storage write fails must leave the served configuration exactly as it was.
// Failing input from the contract's counterexample: the (key,value) pair is already present when SetLabelProperty
// is called and Persist fails. Injected into package server via `go test -overlay`.
package server

import (
	"errors"
	"reflect"
	"testing"

	"github.com/tikv/pd/server/config"
	"github.com/tikv/pd/server/core"
	"github.com/tikv/pd/server/kv"
)

type verifFlakyKV struct {
	kv.Base
	fail bool
}

func (f *verifFlakyKV) Save(key, value string) error {
	if f.fail {
		return errors.New("injected storage failure")
	}
	return f.Base.Save(key, value)
}

func TestVerifReplayLabelPropertyRollback(t *testing.T) {
	cfg := config.NewConfig()
	if err := cfg.Adjust(nil, false); err != nil {
		t.Fatal(err)
	}
	base := &verifFlakyKV{Base: kv.NewMemoryKV()}
	s := &Server{persistOptions: config.NewPersistOptions(cfg), storage: core.NewStorage(base)}
	if err := s.SetLabelProperty("reject-leader", "zone", "a"); err != nil {
		t.Fatal(err)
	}
	if err := s.SetLabelProperty("reject-leader", "zone", "b"); err != nil {
		t.Fatal(err)
	}
	before := s.GetLabelProperty()

	base.fail = true
	if err := s.SetLabelProperty("reject-leader", "zone", "a"); err == nil {
		t.Fatal("harness error: the write was supposed to fail")
	}
	if after := s.GetLabelProperty(); !reflect.DeepEqual(before, after) {
		t.Errorf("SetLabelProperty was rejected (storage failure) but the served label properties changed:\n before %v\n after  %v", before, after)
	}
	if err := s.DeleteLabelProperty("reject-leader", "zone", "a"); err == nil {
		t.Fatal("harness error: the write was supposed to fail")
	}
	if after := s.GetLabelProperty(); !reflect.DeepEqual(before, after) {
		t.Errorf("DeleteLabelProperty was rejected (storage failure) but the served label properties changed:\n before %v\n after  %v", before, after)
	}
}
