// Replay harness for core.Storage.LoadStores/assert@f#1.edge-maxid (known finding): a store whose id is
// 2^64-1 is saved but a full load neither returns it (the scan's end key is the key of that very id and the
// range is end-exclusive) nor could advance past it (id+1 wraps to 0). Injected into package core via -overlay.
package core

import (
	"math"
	"testing"

	"github.com/pingcap/kvproto/pkg/metapb"
	"github.com/tikv/pd/server/kv"
)

func TestVerifReplayLoadStoresMaxID(t *testing.T) {
	s := NewStorage(kv.NewMemoryKV())
	for _, id := range []uint64{1, 7, math.MaxUint64} {
		if err := s.SaveStore(&metapb.Store{Id: id, Address: "mock"}); err != nil {
			t.Fatal(err)
		}
	}
	seen := map[uint64]int{}
	if err := s.LoadStores(func(st *StoreInfo) { seen[st.GetID()]++ }); err != nil {
		t.Fatal(err)
	}
	for _, id := range []uint64{1, 7, math.MaxUint64} {
		if seen[id] != 1 {
			t.Errorf("store %d was saved and not deleted but a full load returned it %d times", id, seen[id])
		}
	}
}

func TestVerifReplayLoadRegionsMaxID(t *testing.T) {
	s := NewStorage(kv.NewMemoryKV())
	for _, id := range []uint64{1, 7, math.MaxUint64} {
		if err := s.SaveRegion(&metapb.Region{Id: id}); err != nil {
			t.Fatal(err)
		}
	}
	seen := map[uint64]int{}
	if err := s.LoadRegions(func(r *RegionInfo) []*RegionInfo { seen[r.GetID()]++; return nil }); err != nil {
		t.Fatal(err)
	}
	for _, id := range []uint64{1, 7, math.MaxUint64} {
		if seen[id] != 1 {
			t.Errorf("region %d was saved and not deleted but a full load returned it %d times", id, seen[id])
		}
	}
}
