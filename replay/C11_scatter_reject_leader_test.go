// Replay harness for schedule.RegionScatterer.selectAvailableLeaderStores (post.leader-only-on-a-store-that-accepts-leaders):
// region scatter hands the leader only to stores that accept leaders. Store 3 carries the label noleader=true and the
// cluster has the reject-leader property {noleader: true}; before the fix the target leader was chosen by the group's
// leader count alone and the operator (built with the force-target-leader flag) transferred the leader to store 3.
// Injected via -overlay.
package schedule

import (
	"context"
	"testing"

	"github.com/tikv/pd/pkg/mock/mockcluster"
	"github.com/tikv/pd/server/config"
	"github.com/tikv/pd/server/schedule/operator"
	"github.com/tikv/pd/server/schedule/opt"
)

func TestVerifReplayScatterRejectLeader(t *testing.T) {
	ctx, cancel := context.WithCancel(context.Background())
	defer cancel()
	tc := mockcluster.NewCluster(ctx, config.NewTestOptions())
	tc.AddRegionStore(1, 0)
	tc.AddRegionStore(2, 0)
	tc.AddLabelsStore(3, 0, map[string]string{"noleader": "true"})
	tc.SetLabelProperty(opt.RejectLeader, "noleader", "true")
	scatterer := NewRegionScatterer(ctx, tc)
	bad := 0
	for i := uint64(1); i <= 30; i++ {
		region := tc.AddLeaderRegion(i, 1, 2, 3)
		op, err := scatterer.Scatter(region, "group")
		if err != nil || op == nil {
			continue
		}
		for j := 0; j < op.Len(); j++ {
			if tl, ok := op.Step(j).(operator.TransferLeader); ok && tl.ToStore == 3 {
				bad++
				if bad <= 3 {
					t.Errorf("region %d: scatter operator %v transfers the leader to store 3, which rejects leaders", i, op)
				}
			}
		}
	}
	if bad > 0 {
		t.Errorf("%d of 30 scatter operators hand the leader to the reject-leader store", bad)
	}
}
