// Replay harness for server.Server.GetReplicationModeConfig/post.hands-out-a-copy (C18): the getter handed out the SERVED
// object (every sibling getter returns a clone), and the HTTP handler of POST /config/replication-mode decodes the request
// body into what the getter returns BEFORE anything is validated: a rejected update (invalid mode) was served anyway, and
// the next accepted update of any other section persisted it. The harness does what the handler does. Runs inside the
// package's gocheck entry point (TestServer). Injected via -overlay.
package server

import (
	. "github.com/pingcap/check"
	"github.com/tikv/pd/server/config"
)

type verifReplicationModeGetterSuite struct{}

var _ = Suite(&verifReplicationModeGetterSuite{})

func (s *verifReplicationModeGetterSuite) TestVerifReplayReplicationModeGetter(c *C) {
	svr, cleanup, err := NewTestServer(c)
	c.Assert(err, IsNil)
	defer cleanup()
	mustWaitLeader(c, []*Server{svr})
	before := *svr.GetReplicationModeConfig()
	// the handler: config := h.svr.GetReplicationModeConfig(); decode the body into it; h.svr.SetReplicationModeConfig(*config)
	cfg := svr.GetReplicationModeConfig()
	cfg.ReplicationMode = "no-such-mode"
	cfg.DRAutoSync.LabelKey = "rack"
	cfg.DRAutoSync.PrimaryReplicas = 7
	err = svr.SetReplicationModeConfig(*cfg)
	c.Assert(err, NotNil) // invalid replication mode
	after := *svr.GetReplicationModeConfig()
	if after.ReplicationMode != before.ReplicationMode || after.DRAutoSync.LabelKey != before.DRAutoSync.LabelKey || after.DRAutoSync.PrimaryReplicas != before.DRAutoSync.PrimaryReplicas {
		c.Fatalf("rejected update (%v) is served: %+v -> %+v", err, before, after)
	}
	// an accepted update of another section must not persist the rejected values
	sc := svr.GetScheduleConfig()
	sc.LeaderScheduleLimit = 8
	c.Assert(svr.SetScheduleConfig(*sc), IsNil)
	fresh := config.NewPersistOptions(config.NewConfig())
	c.Assert(fresh.Reload(svr.GetStorage()), IsNil)
	if got := fresh.GetReplicationModeConfig(); got.ReplicationMode != before.ReplicationMode {
		c.Fatalf("a newly elected leader reloads the rejected replication mode %q", got.ReplicationMode)
	}
}
