// Replay harness for placement.RuleManager.savePatch/pre@(*Storage).SaveRuleGroup#1 / DeleteRuleGroup#1 (group-id-is-one-clean-path-segment):
// rule groups "a" and "a/" are both accepted and served, but are stored under the same key rule_group/a (path.Join
// cleans the raw id), so a restarted PD loads only one of them. Known finding (edge input). Injected via -overlay.
package placement

import (
	"testing"

	"github.com/tikv/pd/server/core"
	"github.com/tikv/pd/server/kv"
)

func TestVerifReplayGroupIDCollision(t *testing.T) {
	store := core.NewStorage(kv.NewMemoryKV())
	m := NewRuleManager(store, nil)
	if err := m.Initialize(3, []string{"zone"}); err != nil {
		t.Fatal(err)
	}
	if err := m.SetRuleGroup(&RuleGroup{ID: "a", Index: 5}); err != nil {
		t.Fatal(err)
	}
	if err := m.SetRuleGroup(&RuleGroup{ID: "a/", Index: 7, Override: true}); err != nil {
		t.Fatal(err)
	}
	served := map[string]RuleGroup{}
	for _, g := range m.GetRuleGroups() {
		served[g.ID] = *g
	}
	m2 := NewRuleManager(store, nil)
	if err := m2.Initialize(3, []string{"zone"}); err != nil {
		t.Fatal(err)
	}
	loaded := map[string]RuleGroup{}
	for _, g := range m2.GetRuleGroups() {
		loaded[g.ID] = *g
	}
	t.Logf("served %v loaded %v", served, loaded)
	if len(served) != len(loaded) {
		t.Fatalf("restart loads %v, served was %v", loaded, served)
	}
	for k, v := range served {
		if loaded[k] != v {
			t.Fatalf("restart loads %v, served was %v", loaded, served)
		}
	}
}
