// Replay harness for the rule-group storage writers (core.Storage.SaveRuleGroup / DeleteRuleGroup, core.ruleGroupKey):
// rule groups are stored under "rule_group/" + the RAW group id, and the kv layer of a running PD (etcdKVBase) joins
// every key to its root path with path.Join, which cleans it. Before the fix group ids "a" and "a/" were both accepted
// and served but shared one record (a restarted PD loaded only one), and the id "../alloc_id" addressed the id
// allocator's window: SetRuleGroup + DeleteRuleGroup removed it (the allocator then starts again from 0 - duplicate ids).
// An update with such an id must be rejected and change nothing. verifCleaningKV mimics etcdKVBase's key handling on
// top of the in-memory kv. Injected via -overlay.
package placement

import (
	"path"
	"testing"

	"github.com/tikv/pd/server/core"
	"github.com/tikv/pd/server/kv"
)

type verifCleaningKV struct {
	kv.Base
	root string
}

func (k *verifCleaningKV) Load(key string) (string, error) { return k.Base.Load(path.Join(k.root, key)) }
func (k *verifCleaningKV) Save(key, value string) error    { return k.Base.Save(path.Join(k.root, key), value) }
func (k *verifCleaningKV) Remove(key string) error         { return k.Base.Remove(path.Join(k.root, key)) }
func (k *verifCleaningKV) LoadRange(key, endKey string, limit int) ([]string, []string, error) {
	// as etcdKVBase: strings.Join, not path.Join, for range ends
	return k.Base.LoadRange(k.root+"/"+key, k.root+"/"+endKey, limit)
}

func verifGroups(m *RuleManager) map[string]RuleGroup {
	r := map[string]RuleGroup{}
	for _, g := range m.GetRuleGroups() {
		r[g.ID] = *g
	}
	return r
}

func TestVerifReplayGroupIDCollision(t *testing.T) {
	for _, bad := range []string{"a/", "b/../a", "./a", "../alloc_id", "x/../../alloc_id"} {
		mem := kv.NewMemoryKV()
		base := &verifCleaningKV{Base: mem, root: "/pd/1"}
		store := core.NewStorage(base)
		if err := base.Save("alloc_id", "window-end"); err != nil {
			t.Fatal(err)
		}
		m := NewRuleManager(store, nil)
		if err := m.Initialize(3, []string{"zone"}); err != nil {
			t.Fatal(err)
		}
		if err := m.SetRuleGroup(&RuleGroup{ID: "a", Index: 5}); err != nil {
			t.Fatal(err)
		}
		before := verifGroups(m)
		errSet := m.SetRuleGroup(&RuleGroup{ID: bad, Index: 7, Override: true})
		if errSet != nil {
			if after := verifGroups(m); len(after) != len(before) || after["a"] != before["a"] {
				t.Errorf("group id %q: update rejected (%v) but the served groups changed: %v -> %v", bad, errSet, before, after)
			}
		}
		served := verifGroups(m)
		m2 := NewRuleManager(store, nil)
		if err := m2.Initialize(3, []string{"zone"}); err != nil {
			t.Fatal(err)
		}
		loaded := verifGroups(m2)
		same := len(served) == len(loaded)
		for k, v := range served {
			if loaded[k] != v {
				same = false
			}
		}
		if !same {
			t.Errorf("group id %q (SetRuleGroup error: %v): a restarted PD loads %v, served was %v", bad, errSet, loaded, served)
		}
		_ = m.DeleteRuleGroup(bad)
		if v, _ := base.Load("alloc_id"); v != "window-end" {
			t.Errorf("group id %q: SetRuleGroup + DeleteRuleGroup changed the id allocator's key: now %q", bad, v)
		}
	}
}
