// Replay harness for operator.Builder.planReplace / planAddPeer (the store of an added peer must be free):
// without joint consensus a voter that becomes a learner on its store is expressed as remove(old voter) +
// add(new learner) on the SAME store; the replace plan "add learner + remove learner" paired that add with the
// removal of ANOTHER learner and emitted AddLearner on the store that still held the old voter, so the step's own
// safety check fails when its turn comes. Injected into package operator via -overlay.
package operator

import (
	"context"
	"testing"

	"github.com/pingcap/kvproto/pkg/metapb"
	"github.com/tikv/pd/pkg/mock/mockcluster"
	"github.com/tikv/pd/server/config"
	"github.com/tikv/pd/server/core"
	"github.com/tikv/pd/server/versioninfo"
)

func verifApplyStep(t *testing.T, region *core.RegionInfo, step OpStep) *core.RegionInfo {
	switch s := step.(type) {
	case AddLearner:
		return region.Clone(core.WithAddPeer(&metapb.Peer{Id: s.PeerID, StoreId: s.ToStore, Role: metapb.PeerRole_Learner}))
	case PromoteLearner:
		return region.Clone(core.WithPromoteLearner(s.PeerID))
	case RemovePeer:
		return region.Clone(core.WithRemoveStorePeer(s.FromStore))
	case TransferLeader:
		return region.Clone(core.WithLeader(region.GetStorePeer(s.ToStore)))
	}
	t.Fatalf("unexpected step %v", step)
	return nil
}

func TestVerifReplayAddOnOccupiedStore(t *testing.T) {
	ctx, cancel := context.WithCancel(context.Background())
	defer cancel()
	tc := mockcluster.NewCluster(ctx, config.NewTestOptions())
	tc.DisableFeature(versioninfo.JointConsensus)
	for i := uint64(1); i <= 4; i++ {
		tc.AddRegionStore(i, 0)
	}
	origin := []*metapb.Peer{{Id: 1, StoreId: 1}, {Id: 2, StoreId: 2}, {Id: 3, StoreId: 3, Role: metapb.PeerRole_Learner}}
	region := core.NewRegionInfo(&metapb.Region{Id: 1, Peers: origin}, origin[0])
	// voter on store 2 becomes a learner, the learner on store 3 goes away
	target := map[uint64]*metapb.Peer{1: {StoreId: 1}, 2: {StoreId: 2, Role: metapb.PeerRole_Learner}}
	op, err := NewBuilder("replay", tc, region).SetPeers(target).Build(0)
	if err != nil {
		t.Fatal(err)
	}
	for i := 0; i < op.Len(); i++ {
		step := op.Step(i)
		if err := step.CheckSafety(region); err != nil {
			t.Fatalf("step %d (%v) is refused when its turn comes: %v; region %v", i, step, err, region.GetMeta())
		}
		if add, ok := step.(AddLearner); ok {
			if p := region.GetStorePeer(add.ToStore); p != nil {
				t.Fatalf("step %d (%v) adds a peer on store %d which still holds peer %d", i, step, add.ToStore, p.GetId())
			}
		}
		region = verifApplyStep(t, region, step)
	}
	if len(region.GetPeers()) != 2 || region.GetStorePeer(2) == nil || !core.IsLearner(region.GetStorePeer(2)) || region.GetStorePeer(3) != nil {
		t.Fatalf("final placement is not the requested one: %v", region.GetMeta())
	}
}

// Sweep: every origin/target role assignment over 4 stores (absent, voter, learner), every origin leader, without joint
// consensus.  Used as the replay search for obligations of the builder's step-by-step path: the first request whose
// operator has a step that is refused when its turn comes (or that adds on an occupied store, or that ends anywhere
// but at the requested placement) is reported.
func TestVerifReplayBuilderSweep(t *testing.T) {
	ctx, cancel := context.WithCancel(context.Background())
	defer cancel()
	tc := mockcluster.NewCluster(ctx, config.NewTestOptions())
	tc.DisableFeature(versioninfo.JointConsensus)
	for i := uint64(1); i <= 4; i++ {
		tc.AddRegionStore(i, 0)
	}
	const stores = 4
	pow := 1
	for i := 0; i < stores; i++ {
		pow *= 3
	}
	cases := 0
	for oc := 0; oc < pow; oc++ {
		var origin []*metapb.Peer
		for s, c := uint64(1), oc; s <= stores; s, c = s+1, c/3 {
			switch c % 3 {
			case 1:
				origin = append(origin, &metapb.Peer{Id: 10 + s, StoreId: s})
			case 2:
				origin = append(origin, &metapb.Peer{Id: 10 + s, StoreId: s, Role: metapb.PeerRole_Learner})
			}
		}
		for _, leader := range origin {
			if core.IsLearner(leader) {
				continue
			}
			for tcode := 0; tcode < pow; tcode++ {
				target := map[uint64]*metapb.Peer{}
				for s, c := uint64(1), tcode; s <= stores; s, c = s+1, c/3 {
					switch c % 3 {
					case 1:
						target[s] = &metapb.Peer{StoreId: s}
					case 2:
						target[s] = &metapb.Peer{StoreId: s, Role: metapb.PeerRole_Learner}
					}
				}
				region := core.NewRegionInfo(&metapb.Region{Id: 1, Peers: origin}, leader)
				op, err := NewBuilder("replay", tc, region).SetPeers(target).Build(0)
				if err != nil {
					continue
				}
				cases++
				for i := 0; i < op.Len(); i++ {
					step := op.Step(i)
					if err := step.CheckSafety(region); err != nil {
						t.Fatalf("origin %v leader %d target %v: step %d (%v) of %v is refused when its turn comes: %v", origin, leader.StoreId, target, i, step, op, err)
					}
					if add, ok := step.(AddLearner); ok {
						if p := region.GetStorePeer(add.ToStore); p != nil {
							t.Fatalf("origin %v leader %d target %v: step %d (%v) adds a peer on store %d which still holds peer %d", origin, leader.StoreId, target, i, step, add.ToStore, p.GetId())
						}
					}
					region = verifApplyStep(t, region, step)
				}
				if len(region.GetPeers()) != len(target) {
					t.Fatalf("origin %v leader %d target %v: final placement %v", origin, leader.StoreId, target, region.GetMeta())
				}
				for s, p := range target {
					q := region.GetStorePeer(s)
					if q == nil || core.IsLearner(q) != core.IsLearner(p) {
						t.Fatalf("origin %v leader %d target %v: final placement %v", origin, leader.StoreId, target, region.GetMeta())
					}
				}
			}
		}
	}
	t.Logf("%d operators executed step by step", cases)
}


// ---- joint consensus ----
// The same sweep with the JointConsensus feature enabled: the region is simulated as a peer list plus a leader store;
// entering the joint state turns promoted learners into IncomingVoters and demoted voters into DemotingVoters, leaving
// it turns them into Voters and Learners. Reported: a step refused by its own CheckSafety when its turn comes, an add on
// an occupied store, a removal or a leave-joint that hits the peer that is leader at that moment as a demoted one, a
// transfer to a peer that may not lead, a final placement other than the requested one.
func verifJointRegion(peers []*metapb.Peer, leaderStore uint64) *core.RegionInfo {
	var leader *metapb.Peer
	cp := make([]*metapb.Peer, 0, len(peers))
	for _, p := range peers {
		q := &metapb.Peer{Id: p.Id, StoreId: p.StoreId, Role: p.Role}
		cp = append(cp, q)
		if q.StoreId == leaderStore {
			leader = q
		}
	}
	return core.NewRegionInfo(&metapb.Region{Id: 1, Peers: cp}, leader)
}

func TestVerifReplayBuilderSweepJoint(t *testing.T) {
	ctx, cancel := context.WithCancel(context.Background())
	defer cancel()
	tc := mockcluster.NewCluster(ctx, config.NewTestOptions())
	for i := uint64(1); i <= 4; i++ {
		tc.AddRegionStore(i, 0)
	}
	const stores = 4
	pow := 81
	cases := 0
	jointOps := 0
	for oc := 0; oc < pow; oc++ {
		var origin []*metapb.Peer
		for s, c := uint64(1), oc; s <= stores; s, c = s+1, c/3 {
			switch c % 3 {
			case 1:
				origin = append(origin, &metapb.Peer{Id: 10 + s, StoreId: s})
			case 2:
				origin = append(origin, &metapb.Peer{Id: 10 + s, StoreId: s, Role: metapb.PeerRole_Learner})
			}
		}
		for _, leader := range origin {
			if core.IsLearner(leader) {
				continue
			}
			for tcode := 0; tcode < pow; tcode++ {
				target := map[uint64]*metapb.Peer{}
				for s, c := uint64(1), tcode; s <= stores; s, c = s+1, c/3 {
					switch c % 3 {
					case 1:
						target[s] = &metapb.Peer{StoreId: s}
					case 2:
						target[s] = &metapb.Peer{StoreId: s, Role: metapb.PeerRole_Learner}
					}
				}
				region := verifJointRegion(origin, leader.StoreId)
				op, err := NewBuilder("replay", tc, region).SetPeers(target).Build(0)
				if err != nil {
					continue
				}
				cases++
				peers := region.GetMeta().GetPeers()
				leaderStore := leader.StoreId
				fail := func(i int, step OpStep, why string) {
					t.Fatalf("origin %v leader %d target %v: step %d (%v) of %v: %s", origin, leader.StoreId, target, i, step, op, why)
				}
				find := func(store uint64) *metapb.Peer {
					for _, p := range peers {
						if p.StoreId == store {
							return p
						}
					}
					return nil
				}
				for i := 0; i < op.Len(); i++ {
					step := op.Step(i)
					region = verifJointRegion(peers, leaderStore)
					if err := step.CheckSafety(region); err != nil {
						fail(i, step, "refused when its turn comes: "+err.Error())
					}
					switch st := step.(type) {
					case AddLearner:
						if find(st.ToStore) != nil {
							fail(i, step, "adds on an occupied store")
						}
						peers = append(peers, &metapb.Peer{Id: st.PeerID, StoreId: st.ToStore, Role: metapb.PeerRole_Learner})
					case PromoteLearner:
						find(st.ToStore).Role = metapb.PeerRole_Voter
					case DemoteFollower:
						if st.ToStore == leaderStore {
							fail(i, step, "demotes the leader")
						}
						find(st.ToStore).Role = metapb.PeerRole_Learner
					case RemovePeer:
						if st.FromStore == leaderStore {
							fail(i, step, "removes the leader")
						}
						var np []*metapb.Peer
						for _, p := range peers {
							if p.StoreId != st.FromStore {
								np = append(np, p)
							}
						}
						peers = np
					case TransferLeader:
						p := find(st.ToStore)
						if p == nil || p.Role == metapb.PeerRole_Learner || p.Role == metapb.PeerRole_DemotingVoter {
							fail(i, step, "transfers the leader to a peer that may not lead")
						}
						leaderStore = st.ToStore
					case ChangePeerV2Enter:
						jointOps++
						for _, pl := range st.PromoteLearners {
							find(pl.ToStore).Role = metapb.PeerRole_IncomingVoter
						}
						for _, dv := range st.DemoteVoters {
							find(dv.ToStore).Role = metapb.PeerRole_DemotingVoter
						}
					case ChangePeerV2Leave:
						if p := find(leaderStore); p != nil && p.Role == metapb.PeerRole_DemotingVoter {
							fail(i, step, "leaves the joint state while the leader is a demoting voter")
						}
						for _, p := range peers {
							switch p.Role {
							case metapb.PeerRole_IncomingVoter:
								p.Role = metapb.PeerRole_Voter
							case metapb.PeerRole_DemotingVoter:
								p.Role = metapb.PeerRole_Learner
							}
						}
					default:
						fail(i, step, "unexpected step kind")
					}
				}
				if len(peers) != len(target) {
					t.Fatalf("origin %v leader %d target %v: final peers %v", origin, leader.StoreId, target, peers)
				}
				for s, p := range target {
					q := find(s)
					if q == nil || core.IsLearner(q) != core.IsLearner(p) || q.Role == metapb.PeerRole_IncomingVoter || q.Role == metapb.PeerRole_DemotingVoter {
						t.Fatalf("origin %v leader %d target %v: final peers %v", origin, leader.StoreId, target, peers)
					}
				}
			}
		}
	}
	t.Logf("%d operators executed step by step, %d of them through a joint state", cases, jointOps)
}
