// Replay harness for operator.Builder.planReplace / planAddPeer (the store of an added peer must be free):
// without joint consensus a voter that becomes a learner on its store is expressed as remove(old voter) +
// add(new learner) on the SAME store; the replace plan "add learner + remove learner" paired that add with the
// removal of ANOTHER learner and emitted AddLearner on the store that still held the old voter, so the step's own
// safety check fails when its turn comes. Injected into package operator via -overlay.
package operator

import (
	"context"
	"testing"

	"github.com/pingcap/kvproto/pkg/metapb"
	"github.com/tikv/pd/pkg/mock/mockcluster"
	"github.com/tikv/pd/server/config"
	"github.com/tikv/pd/server/core"
	"github.com/tikv/pd/server/versioninfo"
)

func verifApplyStep(t *testing.T, region *core.RegionInfo, step OpStep) *core.RegionInfo {
	switch s := step.(type) {
	case AddLearner:
		return region.Clone(core.WithAddPeer(&metapb.Peer{Id: s.PeerID, StoreId: s.ToStore, Role: metapb.PeerRole_Learner}))
	case PromoteLearner:
		return region.Clone(core.WithPromoteLearner(s.PeerID))
	case RemovePeer:
		return region.Clone(core.WithRemoveStorePeer(s.FromStore))
	case TransferLeader:
		return region.Clone(core.WithLeader(region.GetStorePeer(s.ToStore)))
	}
	t.Fatalf("unexpected step %v", step)
	return nil
}

func TestVerifReplayAddOnOccupiedStore(t *testing.T) {
	ctx, cancel := context.WithCancel(context.Background())
	defer cancel()
	tc := mockcluster.NewCluster(ctx, config.NewTestOptions())
	tc.DisableFeature(versioninfo.JointConsensus)
	for i := uint64(1); i <= 4; i++ {
		tc.AddRegionStore(i, 0)
	}
	origin := []*metapb.Peer{{Id: 1, StoreId: 1}, {Id: 2, StoreId: 2}, {Id: 3, StoreId: 3, Role: metapb.PeerRole_Learner}}
	region := core.NewRegionInfo(&metapb.Region{Id: 1, Peers: origin}, origin[0])
	// voter on store 2 becomes a learner, the learner on store 3 goes away
	target := map[uint64]*metapb.Peer{1: {StoreId: 1}, 2: {StoreId: 2, Role: metapb.PeerRole_Learner}}
	op, err := NewBuilder("replay", tc, region).SetPeers(target).Build(0)
	if err != nil {
		t.Fatal(err)
	}
	for i := 0; i < op.Len(); i++ {
		step := op.Step(i)
		if err := step.CheckSafety(region); err != nil {
			t.Fatalf("step %d (%v) is refused when its turn comes: %v; region %v", i, step, err, region.GetMeta())
		}
		if add, ok := step.(AddLearner); ok {
			if p := region.GetStorePeer(add.ToStore); p != nil {
				t.Fatalf("step %d (%v) adds a peer on store %d which still holds peer %d", i, step, add.ToStore, p.GetId())
			}
		}
		region = verifApplyStep(t, region, step)
	}
	if len(region.GetPeers()) != 2 || region.GetStorePeer(2) == nil || !core.IsLearner(region.GetStorePeer(2)) || region.GetStorePeer(3) != nil {
		t.Fatalf("final placement is not the requested one: %v", region.GetMeta())
	}
}

// Sweep: every origin/target role assignment over 4 stores (absent, voter, learner), every origin leader, without joint
// consensus.  Used as the replay search for obligations of the builder's step-by-step path: the first request whose
// operator has a step that is refused when its turn comes (or that adds on an occupied store, or that ends anywhere
// but at the requested placement) is reported.
func TestVerifReplayBuilderSweep(t *testing.T) {
	ctx, cancel := context.WithCancel(context.Background())
	defer cancel()
	tc := mockcluster.NewCluster(ctx, config.NewTestOptions())
	tc.DisableFeature(versioninfo.JointConsensus)
	for i := uint64(1); i <= 4; i++ {
		tc.AddRegionStore(i, 0)
	}
	const stores = 4
	pow := 1
	for i := 0; i < stores; i++ {
		pow *= 3
	}
	cases := 0
	for oc := 0; oc < pow; oc++ {
		var origin []*metapb.Peer
		for s, c := uint64(1), oc; s <= stores; s, c = s+1, c/3 {
			switch c % 3 {
			case 1:
				origin = append(origin, &metapb.Peer{Id: 10 + s, StoreId: s})
			case 2:
				origin = append(origin, &metapb.Peer{Id: 10 + s, StoreId: s, Role: metapb.PeerRole_Learner})
			}
		}
		for _, leader := range origin {
			if core.IsLearner(leader) {
				continue
			}
			for tcode := 0; tcode < pow; tcode++ {
				target := map[uint64]*metapb.Peer{}
				for s, c := uint64(1), tcode; s <= stores; s, c = s+1, c/3 {
					switch c % 3 {
					case 1:
						target[s] = &metapb.Peer{StoreId: s}
					case 2:
						target[s] = &metapb.Peer{StoreId: s, Role: metapb.PeerRole_Learner}
					}
				}
				region := core.NewRegionInfo(&metapb.Region{Id: 1, Peers: origin}, leader)
				op, err := NewBuilder("replay", tc, region).SetPeers(target).Build(0)
				if err != nil {
					continue
				}
				cases++
				for i := 0; i < op.Len(); i++ {
					step := op.Step(i)
					if err := step.CheckSafety(region); err != nil {
						t.Fatalf("origin %v leader %d target %v: step %d (%v) of %v is refused when its turn comes: %v", origin, leader.StoreId, target, i, step, op, err)
					}
					if add, ok := step.(AddLearner); ok {
						if p := region.GetStorePeer(add.ToStore); p != nil {
							t.Fatalf("origin %v leader %d target %v: step %d (%v) adds a peer on store %d which still holds peer %d", origin, leader.StoreId, target, i, step, add.ToStore, p.GetId())
						}
					}
					region = verifApplyStep(t, region, step)
				}
				if len(region.GetPeers()) != len(target) {
					t.Fatalf("origin %v leader %d target %v: final placement %v", origin, leader.StoreId, target, region.GetMeta())
				}
				for s, p := range target {
					q := region.GetStorePeer(s)
					if q == nil || core.IsLearner(q) != core.IsLearner(p) {
						t.Fatalf("origin %v leader %d target %v: final placement %v", origin, leader.StoreId, target, region.GetMeta())
					}
				}
			}
		}
	}
	t.Logf("%d operators executed step by step", cases)
}
