// Replay harness for core.Storage.RemoveServiceGCSafePoint / SaveServiceGCSafePoint
// (post.gcworker-entry-and-gc-safe-point-untouched-whatever-the-id): whatever service id a request carries, removing or
// saving that service's safe point never touches gc_worker's record or the GC safe point itself. Before the fix the key
// was path.Join(prefix, id), which cleans the id: "x/../gc_worker" addressed gc_worker's record and ".." the GC safe
// point. Injected via -overlay.
package core

import (
	"math"
	"os"
	"testing"
	"time"

	"github.com/tikv/pd/pkg/etcdutil"
	"github.com/tikv/pd/server/kv"
	"go.etcd.io/etcd/clientv3"
	"go.etcd.io/etcd/embed"
)

// the same ids against the etcd-backed kv of a running PD: that layer joins every key to its root path with path.Join
// once more, so an id that is merely appended unchanged by the storage layer is cleaned there
func TestVerifReplayServiceIDPathEtcd(t *testing.T) {
	cfg := etcdutil.NewTestSingleConfig()
	defer os.RemoveAll(cfg.Dir)
	etcd, err := embed.StartEtcd(cfg)
	if err != nil {
		t.Skipf("embedded etcd does not start here: %v", err)
	}
	defer etcd.Close()
	<-etcd.Server.ReadyNotify()
	client, err := clientv3.New(clientv3.Config{Endpoints: []string{cfg.LCUrls[0].String()}})
	if err != nil {
		t.Fatal(err)
	}
	defer client.Close()
	n := 0
	verifServiceIDPath(t, func() kv.Base { n++; return kv.NewEtcdKVBase(client, "/pd/"+string(rune('a'+n))) })
}

func TestVerifReplayServiceIDPath(t *testing.T) {
	verifServiceIDPath(t, func() kv.Base { return kv.NewMemoryKV() })
}

func verifServiceIDPath(t *testing.T, newKV func() kv.Base) {
	for _, id := range []string{"x/../gc_worker", "./gc_worker", "gc_worker/", "..", "a/../..", "br/../../service/gc_worker", "../../../../pd/alloc_id"} {
		s := NewStorage(newKV())
		if err := s.SaveGCSafePoint(100); err != nil {
			t.Fatal(err)
		}
		if err := s.SaveServiceGCSafePoint(&ServiceSafePoint{ServiceID: "gc_worker", ExpiredAt: math.MaxInt64, SafePoint: 100}); err != nil {
			t.Fatal(err)
		}
		check := func(what string) {
			gc, err := s.LoadGCSafePoint()
			if err != nil || gc != 100 {
				t.Errorf("%s with service id %q: the GC safe point is now %d (err %v), was 100", what, id, gc, err)
			}
			all, err := s.GetAllServiceGCSafePoints()
			if err != nil {
				t.Errorf("%s with service id %q: %v", what, id, err)
			}
			found := false
			for _, ssp := range all {
				if ssp.ServiceID == "gc_worker" && ssp.SafePoint == 100 && ssp.ExpiredAt == math.MaxInt64 {
					found = true
				}
			}
			if !found {
				t.Errorf("%s with service id %q: gc_worker's record (safe point 100, never expires) is gone or changed: %v", what, id, all)
			}
		}
		if err := s.SaveServiceGCSafePoint(&ServiceSafePoint{ServiceID: id, ExpiredAt: time.Now().Unix() + 60, SafePoint: 5}); err == nil {
			check("SaveServiceGCSafePoint")
		}
		if err := s.RemoveServiceGCSafePoint(id); err == nil {
			check("RemoveServiceGCSafePoint")
		}
	}
}
