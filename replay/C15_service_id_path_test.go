// Replay harness for core.Storage.RemoveServiceGCSafePoint / SaveServiceGCSafePoint
// (post.gcworker-entry-and-gc-safe-point-untouched-whatever-the-id): whatever service id a request carries, removing or
// saving that service's safe point never touches gc_worker's record or the GC safe point itself. Before the fix the key
// was path.Join(prefix, id), which cleans the id: "x/../gc_worker" addressed gc_worker's record and ".." the GC safe
// point. Injected via -overlay.
package core

import (
	"math"
	"testing"
	"time"

	"github.com/tikv/pd/server/kv"
)

func TestVerifReplayServiceIDPath(t *testing.T) {
	for _, id := range []string{"x/../gc_worker", "./gc_worker", "gc_worker/", "..", "a/../..", "br/../../service/gc_worker"} {
		s := NewStorage(kv.NewMemoryKV())
		if err := s.SaveGCSafePoint(100); err != nil {
			t.Fatal(err)
		}
		if err := s.SaveServiceGCSafePoint(&ServiceSafePoint{ServiceID: "gc_worker", ExpiredAt: math.MaxInt64, SafePoint: 100}); err != nil {
			t.Fatal(err)
		}
		check := func(what string) {
			gc, err := s.LoadGCSafePoint()
			if err != nil || gc != 100 {
				t.Errorf("%s with service id %q: the GC safe point is now %d (err %v), was 100", what, id, gc, err)
			}
			all, err := s.GetAllServiceGCSafePoints()
			if err != nil {
				t.Errorf("%s with service id %q: %v", what, id, err)
			}
			found := false
			for _, ssp := range all {
				if ssp.ServiceID == "gc_worker" && ssp.SafePoint == 100 && ssp.ExpiredAt == math.MaxInt64 {
					found = true
				}
			}
			if !found {
				t.Errorf("%s with service id %q: gc_worker's record (safe point 100, never expires) is gone or changed: %v", what, id, all)
			}
		}
		if err := s.SaveServiceGCSafePoint(&ServiceSafePoint{ServiceID: id, ExpiredAt: time.Now().Unix() + 60, SafePoint: 5}); err == nil {
			check("SaveServiceGCSafePoint")
		}
		if err := s.RemoveServiceGCSafePoint(id); err == nil {
			check("RemoveServiceGCSafePoint")
		}
	}
}
