// Replay harness for obligations region_syncer.RegionSyncer.syncHistoryRegion/{inv#1.2*,assert@Send#1.*}:
// runs the real full-sync path with N regions against a recording stream and checks, the way the
// follower consumes a response (client.go: regions[i] is paired with regionLeaders[i] and stats[i]),
// that every batch is positionally aligned. Injected into package syncer with `go test -overlay`.
package syncer

import (
	"context"
	"os"
	"strconv"
	"testing"

	"github.com/juju/ratelimit"
	"github.com/pingcap/kvproto/pkg/metapb"
	"github.com/pingcap/kvproto/pkg/pdpb"
	"github.com/tikv/pd/pkg/grpcutil"
	"github.com/tikv/pd/server/core"
	"github.com/tikv/pd/server/kv"
	"google.golang.org/grpc/metadata"
)

type replayServer struct{ regions []*core.RegionInfo }

func (s *replayServer) LoopContext() context.Context       { return context.Background() }
func (s *replayServer) ClusterID() uint64                  { return 1 }
func (s *replayServer) GetMemberInfo() *pdpb.Member        { return &pdpb.Member{} }
func (s *replayServer) GetLeader() *pdpb.Member            { return &pdpb.Member{} }
func (s *replayServer) GetStorage() *core.Storage          { return core.NewStorage(kv.NewMemoryKV()) }
func (s *replayServer) Name() string                       { return "replay" }
func (s *replayServer) GetRegions() []*core.RegionInfo     { return s.regions }
func (s *replayServer) GetTLSConfig() *grpcutil.TLSConfig  { return &grpcutil.TLSConfig{} }
func (s *replayServer) GetBasicCluster() *core.BasicCluster { return core.NewBasicCluster() }

type replayStream struct {
	sent []*pdpb.SyncRegionResponse
}

func (r *replayStream) Send(resp *pdpb.SyncRegionResponse) error {
	// a real gRPC stream serialises at Send time: keep a deep copy of what is on the wire
	b, err := resp.Marshal()
	if err != nil {
		return err
	}
	cp := &pdpb.SyncRegionResponse{}
	if err := cp.Unmarshal(b); err != nil {
		return err
	}
	r.sent = append(r.sent, cp)
	return nil
}
func (r *replayStream) Recv() (*pdpb.SyncRegionRequest, error) { return nil, nil }
func (r *replayStream) SetHeader(metadata.MD) error             { return nil }
func (r *replayStream) SendHeader(metadata.MD) error            { return nil }
func (r *replayStream) SetTrailer(metadata.MD)                  {}
func (r *replayStream) Context() context.Context                { return context.Background() }
func (r *replayStream) SendMsg(m interface{}) error             { return nil }
func (r *replayStream) RecvMsg(m interface{}) error             { return nil }

func TestVerifReplayFullSyncAlignment(t *testing.T) {
	n := 101
	if v := os.Getenv("VERIF_REPLAY_N"); v != "" {
		n, _ = strconv.Atoi(v)
	}
	srv := &replayServer{}
	for i := 0; i < n; i++ {
		id := uint64(i + 1)
		peer := &metapb.Peer{Id: 1000 + id, StoreId: 1}
		meta := &metapb.Region{Id: id, StartKey: []byte(strconv.Itoa(int(id))), Peers: []*metapb.Peer{peer}}
		srv.regions = append(srv.regions, core.NewRegionInfo(meta, peer, core.SetWrittenBytes(id), core.SetReadKeys(2*id)))
	}
	s := &RegionSyncer{server: srv, history: newHistoryBuffer(10, kv.NewMemoryKV()), limit: ratelimit.NewBucketWithRate(1e12, 1e12)}
	s.history.ResetWithIndex(7) // the leader has history, the follower asks from 0: full synchronisation
	st := &replayStream{}
	if err := s.syncHistoryRegion(&pdpb.SyncRegionRequest{StartIndex: 0, Member: &pdpb.Member{Name: "f"}}, st); err != nil {
		t.Fatal(err)
	}
	seen := 0
	for bi, resp := range st.sent {
		if len(resp.RegionLeaders) != len(resp.Regions) || len(resp.RegionStats) != len(resp.Regions) {
			t.Errorf("batch %d: %d regions, %d leaders, %d stats: not positionally aligned", bi, len(resp.Regions), len(resp.RegionLeaders), len(resp.RegionStats))
		}
		if resp.StartIndex != uint64(seen) {
			t.Errorf("batch %d: start index %d, want %d", bi, resp.StartIndex, seen)
		}
		for i, r := range resp.Regions {
			if i < len(resp.RegionLeaders) && resp.RegionLeaders[i].GetId() != 1000+r.Id {
				t.Errorf("batch %d: region %d is paired with leader peer %d, the leader holds %d", bi, r.Id, resp.RegionLeaders[i].GetId(), 1000+r.Id)
				break
			}
			if i < len(resp.RegionStats) && resp.RegionStats[i].BytesWritten != r.Id {
				t.Errorf("batch %d: region %d is paired with flow stat %d", bi, r.Id, resp.RegionStats[i].BytesWritten)
				break
			}
		}
		seen += len(resp.Regions)
	}
	if seen != n {
		t.Errorf("%d regions sent, the leader holds %d", seen, n)
	}
}
