// Replay harness for region_syncer.historyBuffer.ResetWithIndex/post.lag: after a reset to the leader's index
// and fewer than 100 further records, a restart (a new buffer reloading the same storage) must not fall back
// by more than the flush interval of 100 records. Injected into package syncer via `go test -overlay`.
package syncer

import (
	"testing"

	"github.com/pingcap/kvproto/pkg/metapb"
	"github.com/tikv/pd/server/core"
	"github.com/tikv/pd/server/kv"
)

func TestVerifReplayResetPersist(t *testing.T) {
	store := kv.NewMemoryKV()
	h := newHistoryBuffer(10, store)
	h.ResetWithIndex(1000) // a follower adopts the leader's index
	for i := 0; i < 50; i++ {
		h.Record(core.NewRegionInfo(&metapb.Region{Id: uint64(i + 1)}, nil))
	}
	before := h.GetNextIndex()
	restarted := newHistoryBuffer(10, store) // restart: reload from storage
	after := restarted.GetNextIndex()
	if after+100 < before {
		t.Errorf("next index was %d before the restart and %d after it: it went backwards by %d records, more than the flush interval of 100", before, after, before-after)
	}
}
