// Replay harness for core.Storage.DeleteRegion/post.deleted-through-the-region-storage (C06/C17): with the region
// storage switched on (the default), a region that is saved and - before the next flush - displaced and deleted must
// not come back: before the fix DeleteRegion removed the key from leveldb only, the region stayed in the pending batch
// and the next flush wrote it to storage again. Heartbeats handled one at a time. Injected via -overlay.
package core

import (
	"context"
	"testing"

	"github.com/pingcap/kvproto/pkg/metapb"
	"github.com/tikv/pd/server/kv"
)

func TestVerifReplayDeletePendingRegion(t *testing.T) {
	ctx, cancel := context.WithCancel(context.Background())
	defer cancel()
	rs, err := NewRegionStorage(ctx, t.TempDir(), nil)
	if err != nil {
		t.Fatal(err)
	}
	s := NewStorage(kv.NewMemoryKV(), WithRegionStorage(rs))
	s.SwitchToRegionStorage()
	defer s.Close()
	old := &metapb.Region{Id: 1, StartKey: []byte("a"), EndKey: []byte("z"), RegionEpoch: &metapb.RegionEpoch{Version: 1, ConfVer: 1}}
	newer := &metapb.Region{Id: 2, StartKey: []byte("a"), EndKey: []byte("z"), RegionEpoch: &metapb.RegionEpoch{Version: 2, ConfVer: 1}}
	// heartbeat of region 1 is accepted and saved (pending in the batch)
	if err := s.SaveRegion(old); err != nil {
		t.Fatal(err)
	}
	// heartbeat of region 2 displaces region 1: region 1 is deleted from storage, region 2 saved
	if err := s.DeleteRegion(old); err != nil {
		t.Fatal(err)
	}
	if err := s.SaveRegion(newer); err != nil {
		t.Fatal(err)
	}
	if err := s.Flush(); err != nil {
		t.Fatal(err)
	}
	var stored []uint64
	if err := s.LoadRegions(func(r *RegionInfo) []*RegionInfo { stored = append(stored, r.GetID()); return nil }); err != nil {
		t.Fatal(err)
	}
	if len(stored) != 1 || stored[0] != 2 {
		t.Fatalf("regions in storage after save(1), delete(1), save(2), flush: %v - the displaced region 1 is back (only region 2 is served)", stored)
	}
}
