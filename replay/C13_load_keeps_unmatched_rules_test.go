// Replay harness (adopted from a sub-agent test) for placement.RuleManager.loadRules$1 (the load path never applies the
// store-match check, C13): a restarted PD loads exactly what is being served - also a rule whose label constraints no
// CURRENT store matches (e.g. the tiflash rule after the last TiFlash store left); before the fix such a rule was dropped on
// load and its record DELETED from storage. Injected via -overlay.
package placement

import (
	"testing"

	"github.com/pingcap/kvproto/pkg/metapb"
	"github.com/tikv/pd/server/core"
	"github.com/tikv/pd/server/kv"
)

// A restarted PD (or a PD that becomes leader) must load exactly the rules that were being served.
// loadRules validates every stored rule with adjustRule, and adjustRule also demands that the rule's label
// constraints match at least one CURRENT store. A rule that was accepted while a matching store existed is
// therefore thrown away - and deleted from the storage - by the next restart once that store is gone
// (TiFlash scaled in and its tombstone removed, a store relabelled, ...).
func TestVerifReplayRestartKeepsRuleDropsRuleWithoutMatchingStore(t *testing.T) {
	newStore := func(id uint64, k, v string) *core.StoreInfo {
		return core.NewStoreInfo(&metapb.Store{Id: id, Labels: []*metapb.StoreLabel{{Key: k, Value: v}}})
	}
	storage := core.NewStorage(kv.NewMemoryKV())

	// running PD: three tikv stores and one tiflash store
	bc := core.NewBasicCluster()
	bc.PutStore(newStore(1, "engine", "tikv"))
	bc.PutStore(newStore(2, "engine", "tikv"))
	bc.PutStore(newStore(3, "engine", "tikv"))
	bc.PutStore(newStore(4, "engine", "tiflash"))
	m := NewRuleManager(storage, bc)
	if err := m.Initialize(3, nil); err != nil {
		t.Fatal(err)
	}
	learner := &Rule{GroupID: "tiflash", ID: "table-45", StartKeyHex: "10", EndKeyHex: "20", Role: Learner, Count: 1,
		LabelConstraints: []LabelConstraint{{Key: "engine", Op: In, Values: []string{"tiflash"}}}}
	if err := m.SetRule(learner); err != nil {
		t.Fatal(err)
	}
	served := m.GetAllRules()
	if len(served) != 2 {
		t.Fatalf("served rules: %v", served)
	}

	// the tiflash store goes away (scaled in, tombstone removed); the served rules do not change.
	bc2 := core.NewBasicCluster()
	bc2.PutStore(newStore(1, "engine", "tikv"))
	bc2.PutStore(newStore(2, "engine", "tikv"))
	bc2.PutStore(newStore(3, "engine", "tikv"))
	if got := m.GetAllRules(); len(got) != 2 {
		t.Fatalf("served rules changed: %v", got)
	}

	// PD restarts / another PD becomes leader: same storage, the current stores.
	m2 := NewRuleManager(storage, bc2)
	if err := m2.Initialize(3, nil); err != nil {
		t.Fatal(err)
	}
	loaded := m2.GetAllRules()
	if len(loaded) != len(served) {
		t.Errorf("restart loaded %d rules %v, but %d rules %v were being served", len(loaded), loaded, len(served), served)
	}
	if m2.GetRule("tiflash", "table-45") == nil {
		t.Errorf("rule tiflash/table-45 was served before the restart and is gone after it")
	}
	n := 0
	if err := storage.LoadRules(func(k, v string) { n++ }); err != nil {
		t.Fatal(err)
	}
	if n != 2 {
		t.Errorf("the restart left %d rules in the storage, want 2: loading deleted an accepted rule", n)
	}
}

// Same cause, other effect: when the dropped rule was the only rule, the restarted PD takes the storage for
// one that never had placement rules and silently installs (and persists) a fresh pd/default rule instead
// of the configured one.
func TestVerifReplayRestartKeepsRuleReplacesRuleWithoutMatchingStore(t *testing.T) {
	newStore := func(id uint64, k, v string) *core.StoreInfo {
		return core.NewStoreInfo(&metapb.Store{Id: id, Labels: []*metapb.StoreLabel{{Key: k, Value: v}}})
	}
	storage := core.NewStorage(kv.NewMemoryKV())
	bc := core.NewBasicCluster()
	bc.PutStore(newStore(1, "zone", "z1"))
	m := NewRuleManager(storage, bc)
	if err := m.Initialize(3, nil); err != nil {
		t.Fatal(err)
	}
	// replace the default rule by a voter rule pinned to zone z1
	if err := m.SetGroupBundle(GroupBundle{ID: "pd", Rules: []*Rule{{ID: "z1", Role: Voter, Count: 3,
		LabelConstraints: []LabelConstraint{{Key: "zone", Op: In, Values: []string{"z1"}}}}}}); err != nil {
		t.Fatal(err)
	}
	// the store is relabelled
	bc2 := core.NewBasicCluster()
	bc2.PutStore(newStore(1, "zone", "zone1"))
	m2 := NewRuleManager(storage, bc2)
	if err := m2.Initialize(3, nil); err != nil {
		t.Fatalf("restart: Initialize failed although the served configuration was valid: %v", err)
	}
	if r := m2.GetAllRules(); len(r) != 1 || r[0].ID != "z1" {
		t.Errorf("restart loaded %v, served was pd/z1", r)
	}
}
