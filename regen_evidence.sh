#!/bin/bash
# Re-runs every claimed check on /repo as it is (must be clean) so that committed evidence comes from the unchanged tree.
cd /verif
if [ -n "$(git -C /repo status --porcelain)" ]; then echo "WARNING: /repo has uncommitted changes"; git -C /repo status --short; fi
for p in $(python3 -c "import json;print(' '.join(c['property_id'] for c in json.load(open('/verif/MANIFEST.json'))['checks']))"); do
  ./check $p quick | tail -1
done
python3-vt - <<'PY'
import json,jsonschema,glob
sch=json.load(open('/root/.vp/EVIDENCE.schema.json'))
for f in sorted(glob.glob('/verif/evidence/*.json')):
    d=json.load(open(f)); jsonschema.validate(d,sch)
    c=d['coverage']; assert c['obligations']==c['discharged'] and d['violations']==0, f
print('evidence ok')
PY
