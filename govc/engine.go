package main

import (
	"fmt"
	"go/ast"
	"go/types"
	"os"
	"path/filepath"
	"sort"
	"strings"

	"golang.org/x/tools/go/packages"
	"golang.org/x/tools/go/ssa"
	"golang.org/x/tools/go/ssa/ssautil"
)

type Engine struct {
	repo       string
	modulePath string
	pkgs       []*packages.Package
	allPkgs    map[string]*packages.Package
	prog       *ssa.Program
	db         *ContractDB
	safetyAll  bool
	verbose    bool
	ginit      map[string]*Val
	evMemo     map[*ssa.Function]bool
}

func loadEngine(repo string, patterns []string, preludeDir string, overlay map[string][]byte) (*Engine, error) {
	cfg := &packages.Config{
		Mode:       packages.LoadAllSyntax,
		Dir:        repo,
		BuildFlags: []string{"-tags=verif"},
		Env:        append(os.Environ(), "GOFLAGS=-mod=mod", "GOPROXY=off", "GOSUMDB=off", "GOTOOLCHAIN=local"),
		Overlay:    overlay,
	}
	pkgs, err := packages.Load(cfg, patterns...)
	if err != nil {
		return nil, err
	}
	var errs []string
	packages.Visit(pkgs, nil, func(p *packages.Package) {
		for _, e := range p.Errors {
			errs = append(errs, e.Error())
		}
	})
	if len(errs) > 0 {
		return nil, fmt.Errorf("package load errors:\n%s", strings.Join(errs, "\n"))
	}
	prog, _ := ssautil.AllPackages(pkgs, ssa.GlobalDebug|ssa.BareInits)
	prog.Build()
	e := &Engine{repo: repo, pkgs: pkgs, prog: prog, db: newContractDB(), allPkgs: map[string]*packages.Package{}}
	packages.Visit(pkgs, nil, func(p *packages.Package) { e.allPkgs[p.PkgPath] = p })
	if len(pkgs) > 0 && pkgs[0].Module != nil {
		e.modulePath = pkgs[0].Module.Path
	} else {
		e.modulePath = "github.com/tikv/pd"
	}
	if preludeDir != "" {
		if err := e.db.loadPrelude(preludeDir); err != nil {
			return nil, err
		}
	}
	// contract files of every loaded in-module package
	var paths []string
	for path := range e.allPkgs {
		paths = append(paths, path)
	}
	sort.Strings(paths)
	for _, path := range paths {
		p := e.allPkgs[path]
		if !strings.HasPrefix(path, e.modulePath) {
			continue
		}
		for i, f := range p.Syntax {
			name := p.CompiledGoFiles[i]
			if !strings.HasPrefix(filepath.Base(name), "zz_verif_contracts") {
				continue
			}
			text := commentText(f)
			if b, ok := overlay[name]; ok {
				_ = b
			}
			if err := e.db.parseContractText(name, text, path); err != nil {
				return nil, err
			}
		}
	}
	return e, nil
}

func commentText(f *ast.File) string {
	var sb strings.Builder
	for _, cg := range f.Comments {
		for _, c := range cg.List {
			sb.WriteString(c.Text)
			sb.WriteString("\n")
		}
	}
	return sb.String()
}

func (e *Engine) typesPkg(path string) *types.Package {
	if p, ok := e.allPkgs[path]; ok {
		return p.Types
	}
	return nil
}

func (e *Engine) typesPkgByName(name string) *types.Package {
	var found *types.Package
	for _, p := range e.allPkgs {
		if p.Types != nil && p.Types.Name() == name {
			if found != nil && strings.HasPrefix(found.Path(), e.modulePath) && !strings.HasPrefix(p.PkgPath, e.modulePath) {
				continue
			}
			found = p.Types
		}
	}
	return found
}

func (e *Engine) ssaPkg(path string) *ssa.Package {
	if tp := e.typesPkg(path); tp != nil {
		return e.prog.Package(tp)
	}
	return nil
}

// lookupFunc resolves a contract key ("F", "(*T).M", "(T).M", "F$1") to an SSA function.
func (e *Engine) lookupFunc(pkgPath, key string) *ssa.Function {
	sp := e.ssaPkg(pkgPath)
	if sp == nil {
		return nil
	}
	anon := ""
	if i := strings.Index(key, "$"); i >= 0 {
		anon = key[i+1:]
		key = key[:i]
	}
	var fn *ssa.Function
	if strings.HasPrefix(key, "(") {
		end := strings.Index(key, ")")
		recv := key[1:end]
		mname := key[end+2:]
		ptr := strings.HasPrefix(recv, "*")
		recv = strings.TrimPrefix(recv, "*")
		o := sp.Pkg.Scope().Lookup(recv)
		if o == nil {
			return nil
		}
		var t types.Type = o.Type()
		if ptr {
			t = types.NewPointer(t)
		}
		sel := e.prog.MethodSets.MethodSet(t).Lookup(sp.Pkg, mname)
		if sel == nil {
			return nil
		}
		fn = e.prog.MethodValue(sel)
	} else {
		fn = sp.Func(key)
	}
	if fn == nil {
		return nil
	}
	for anon != "" {
		part := anon
		rest := ""
		if i := strings.Index(anon, "$"); i >= 0 {
			part, rest = anon[:i], anon[i+1:]
		}
		var next *ssa.Function
		for _, af := range fn.AnonFuncs {
			if strings.HasSuffix(af.Name(), "$"+part) {
				next = af
			}
		}
		if next == nil {
			return nil
		}
		fn = next
		anon = rest
	}
	return fn
}

func (e *Engine) lookupMethod(t types.Type, name string) *ssa.Function {
	ms := e.prog.MethodSets.MethodSet(t)
	for i := 0; i < ms.Len(); i++ {
		if ms.At(i).Obj().Name() == name {
			return e.prog.MethodValue(ms.At(i))
		}
	}
	if _, isPtr := t.Underlying().(*types.Pointer); !isPtr {
		return e.lookupMethod(types.NewPointer(t), name)
	}
	return nil
}

func (e *Engine) safetyOn(fr *Frame) bool {
	if fr.sess.suppressObl {
		return false
	}
	return true
}

// globalInit evaluates the constant initialiser of a package-level variable (key "pkgpath.Name").
func (e *Engine) globalInit(key string) (Val, bool) {
	if e.ginit == nil {
		e.ginit = map[string]*Val{}
	}
	if v, ok := e.ginit[key]; ok {
		if v == nil {
			return Val{}, false
		}
		return *v, true
	}
	e.ginit[key] = nil
	i := strings.LastIndex(key, ".")
	sp := e.ssaPkg(key[:i])
	if sp == nil {
		return Val{}, false
	}
	g, ok := sp.Members[key[i+1:]].(*ssa.Global)
	if !ok {
		return Val{}, false
	}
	t := g.Type().(*types.Pointer).Elem()
	val := zeroVal(t)
	ls := shape(t)
	// every store rooted at g must be in init with constant indices and a constant value
	for _, m := range sp.Members {
		fn, isFn := m.(*ssa.Function)
		if !isFn {
			continue
		}
		fns := append([]*ssa.Function{fn}, fn.AnonFuncs...)
		for _, f := range fns {
			for _, b := range f.Blocks {
				for _, in := range b.Instrs {
					st, isStore := in.(*ssa.Store)
					if !isStore {
						continue
					}
					path, idx, root, okc := constAddr(st.Addr)
					if root != ssa.Value(g) {
						continue
					}
					if f.Name() != "init" || !okc {
						return Val{}, false // written elsewhere or non-constant address: not a constant table
					}
					c, isC := st.Val.(*ssa.Const)
					if !isC {
						return Val{}, false
					}
					tmp := newSession(e, "init")
					cv := tmp.constVal(c)
					cls := shape(c.Type())
					for k, cl := range cls {
						for li, l := range ls {
							if l.Path == path+cl.Path {
								var ix []T
								for _, n := range idx {
									ix = append(ix, I(n))
								}
								if len(ix) == 0 {
									val.L[li] = cv.L[k]
								} else {
									val.L[li] = nestedStore(val.L[li], ix, cv.L[k])
								}
							}
						}
					}
				}
			}
		}
	}
	// methods may also store: scan methods of named types of the package
	e.ginit[key] = &val
	return val, true
}

func constAddr(addr ssa.Value) (path string, idx []int64, root ssa.Value, ok bool) {
	switch a := addr.(type) {
	case *ssa.Global:
		return "", nil, a, true
	case *ssa.FieldAddr:
		p, ix, r, ok2 := constAddr(a.X)
		stt := a.X.Type().Underlying().(*types.Pointer).Elem().Underlying().(*types.Struct)
		return p + "." + stt.Field(a.Field).Name(), ix, r, ok2
	case *ssa.IndexAddr:
		p, ix, r, ok2 := constAddr(a.X)
		c, isC := a.Index.(*ssa.Const)
		if !isC {
			return p + "[]", ix, r, false
		}
		return p + "[]", append(ix, c.Int64()), r, ok2
	}
	return "", nil, nil, false
}
