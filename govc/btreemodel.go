package main

import (
	"fmt"
	"go/types"
	"sort"
	"strings"

	"golang.org/x/tools/go/ssa"
)

// Model of the ordered iteration functions of pkg/btree (trusted base: the B-tree's node algorithms are not
// verified; the tree is seen as a finite set of items, bthas[t][x], totally ordered by the key function `btkey`
// that the user package declares as a pure spec function).
//
//	t.AscendGreaterOrEqual(pivot, f)  visits the items with key >= key(pivot) in ascending key order,
//	t.DescendLessOrEqual(pivot, f)    visits the items with key <= key(pivot) in descending key order,
//
// calling f on each until f returns false. The visit order is a ghost sequence itseq[0..itn) together with its inverse
// itrank; the callback is REAL code: it is executed symbolically once, on an arbitrary element itseq[itk], between
// two cuts of the loop at the user's invariant (`at AscendGreaterOrEqual K invariant E`, free names itk, itn, itseq).
// After the call, specs can refer to the final position with iter("Name", K, "k" | "n" | "stopped") and iterseq("Name", K).

const btreePkg = "github.com/tikv/pd/pkg/btree"

type iterInfo struct {
	k, n    T
	seq, rk T
	stopped T
}

func init() {
	builtinModels["(*"+btreePkg+".BTree).AscendGreaterOrEqual"] = func(s *Session, fr *Frame, fn *ssa.Function, args []Val, st *State) Val {
		return s.btreeIterate(fr, fn, args, st, true)
	}
	builtinModels["(*"+btreePkg+".BTree).DescendLessOrEqual"] = func(s *Session, fr *Frame, fn *ssa.Function, args []Val, st *State) Val {
		return s.btreeIterate(fr, fn, args, st, false)
	}
}

func (s *Session) btkeyPure() *PureFn {
	var names []string
	for k := range s.eng.db.Pures {
		if strings.HasSuffix(k, "::btkey") {
			names = append(names, k)
		}
	}
	sort.Strings(names)
	if len(names) == 0 {
		return nil
	}
	return s.eng.db.Pures[names[0]]
}

func (s *Session) specAssume(se *SpecEnv, st *State, src string) {
	e, err := parseSpec(src)
	if err != nil {
		panic(fmt.Sprintf("btree model: %v in %q", err, src))
	}
	s.assume(Imp(st.Reach, s.evalBool(se, e)))
}

func (s *Session) btreeIterate(fr *Frame, fn *ssa.Function, args []Val, st *State, asc bool) Val {
	name := "DescendLessOrEqual"
	if asc {
		name = "AscendGreaterOrEqual"
	}
	res := Val{Typ: fn.Signature.Results()}
	pf := s.btkeyPure()
	clo := args[2]
	if pf == nil || clo.Clo == nil || len(pf.Params) != 1 {
		s.note("btree iteration %s without a `btkey` spec function or with an unknown callback in %s: heap havocked", name, fr.fn.String())
		s.havocAll(st)
		return res
	}
	ppkg := s.eng.typesPkg(pf.Pkg)
	itemT := s.resolveType(ppkg, pf.Params[0].Type) // e.g. *regionItem
	s.note("pkg/btree %s is MODELLED (ordered visit of the abstract item set bthas; callback executed symbolically between invariant cuts)", name)

	// ghost visit sequence
	n := s.fresh("itn", SInt)
	seq := s.fresh("itseq", arrSort(SInt))
	rk := s.fresh("itrank", arrSort(SInt))
	pivot := scalar(itemT, s.uf("payload", SInt, args[1].T0()))
	env := map[string]Val{
		"T":      args[0],
		"P":      pivot,
		"itn":    untypedInt(n),
		"itseq":  {Typ: nil, L: []T{seq}},
		"itrank": {Typ: nil, L: []T{rk}},
	}
	se := &SpecEnv{sess: s, pkg: ppkg, vars: env, st: st, old: st}
	it := pf.Params[0].Type
	cmp, ord := "<=", ">"
	if asc {
		cmp, ord = ">=", "<"
	}
	cast := func(e string) string { return "ufcast(" + e + ", " + strings.TrimPrefix(it, "*") + ")" }
	s.specAssume(se, st, "itn >= 0")
	s.specAssume(se, st, "forall k :: {itseq[k]} itrank[itseq[k]] == k")
	s.specAssume(se, st, "forall x "+it+" :: {itrank[x]} itseq[itrank[x]] == x")
	s.specAssume(se, st, "forall k :: {itseq[k]} 0 <= k && k < itn ==> itseq[k] > 0 && bthas[T]["+cast("itseq[k]")+"] && btkey("+cast("itseq[k]")+") "+cmp+" btkey(P)")
	s.specAssume(se, st, "forall x "+it+" :: {bthas[T][x]} bthas[T][x] && btkey(x) "+cmp+" btkey(P) ==> 0 <= itrank[x] && itrank[x] < itn")
	s.specAssume(se, st, "forall j, k :: {itseq[j], itseq[k]} 0 <= j && j < k && k < itn ==> btkey("+cast("itseq[j]")+") "+ord+" btkey("+cast("itseq[k]")+")")

	// the invariant belongs to the function under proof: `at NAME K invariant` for a call in its own body,
	// `at NAME * invariant` for a call inside an inlined callee (evaluated over the variables of the function under proof)
	tf := fr
	site := fr.curSite
	if !fr.top {
		tf = s.topFrame
		site = name + "#*"
	}
	var invs []Clause
	if tf != nil && tf.contract != nil && site != "" {
		invs = tf.contract.Ats[site+"!inv"]
	}
	outer := fr
	fr = tf
	if fr == nil {
		fr = outer
	}
	evalInv := func(cl Clause, state *State, k T, goal bool) T {
		saved := fr.env
		env2 := map[string]Val{}
		for a, b := range saved {
			env2[a] = b
		}
		env2["itk"] = untypedInt(k)
		env2["itn"] = untypedInt(n)
		env2["itseq"] = Val{Typ: nil, L: []T{seq}}
		fr.env = env2
		defer func() { fr.env = saved }()
		idx := -1
		var blk *ssa.BasicBlock
		if fr.curInstr != nil {
			blk = fr.curInstr.Block()
			for i, in := range blk.Instrs {
				if in == ssa.Instruction(fr.curInstr) {
					idx = i
				}
			}
		}
		if goal {
			return s.evalGoalClauseAt(fr, cl, state, blk, idx)
		}
		return s.evalBoolClauseAt(fr, cl, state, blk, idx)
	}
	// entry
	for i, inv := range invs {
		for _, sub := range splitClause(inv) {
			s.addObl(&Obligation{Name: fmt.Sprintf("%s/iterinv@%s.%s:entry", fr.oblPfx, site, clauseNameSplit(inv, i, sub, len(splitClause(inv)))), Kind: "inv:entry", Func: fr.oblPfx, Src: sub.Src, Guard: st.Reach, Formula: evalInv(sub, st, I(0), true)})
		}
	}
	// head: forget what the callback may change
	mods := map[string]string{}
	savedReal, savedRoots, savedBlocks := s.scanReal, s.scanRoots, s.scanBlocks
	s.scanReal, s.scanRoots, s.scanBlocks = map[string]bool{}, map[string][]T{}, map[*ssa.BasicBlock]bool{}
	all := false
	// stores through captured variables are precise (that very cell); calls through captured function values are
	// followed; everything else is scanned by type
	var cells []*Loc
	var collect func(c *Closure, depth int)
	collect = func(c *Closure, depth int) {
		if depth > 4 {
			all = true
			return
		}
		for _, b := range c.Fn.Blocks {
			var rest []ssa.Instruction
			for _, in := range b.Instrs {
				if sto, ok := in.(*ssa.Store); ok {
					if fv, isFV := sto.Addr.(*ssa.FreeVar); isFV {
						for i, f := range c.Fn.FreeVars {
							if f == fv && i < len(c.Bindings) {
								cells = append(cells, s.toLoc(c.Bindings[i]))
							}
						}
						continue
					}
				}
				if call, ok := in.(*ssa.Call); ok && !call.Call.IsInvoke() {
					// f captured by reference: the callee is *fv
					if ld, isLd := call.Call.Value.(*ssa.UnOp); isLd {
						if fv, isFV := ld.X.(*ssa.FreeVar); isFV {
							followed := false
							for i, f := range c.Fn.FreeVars {
								if f == fv && i < len(c.Bindings) {
									if cv, ok3 := s.fnCells[s.toLoc(c.Bindings[i]).Ref.S]; ok3 && cv.Clo != nil {
										collect(cv.Clo, depth+1)
										followed = true
									}
								}
							}
							if followed {
								continue
							}
						}
					}
					if fv, isFV := call.Call.Value.(*ssa.FreeVar); isFV {
						followed := false
						for i, f := range c.Fn.FreeVars {
							if f == fv && i < len(c.Bindings) && c.Bindings[i].Clo != nil {
								collect(c.Bindings[i].Clo, depth+1)
								followed = true
							}
						}
						if followed {
							continue
						}
					}
				}
				rest = append(rest, in)
			}
			if s.scanInstrs(nil, rest, mods, map[*ssa.Function]bool{c.Fn: true}, 1) {
				all = true
			}
		}
	}
	collect(clo.Clo, 0)
	real := s.scanReal
	s.scanReal, s.scanRoots, s.scanBlocks = savedReal, savedRoots, savedBlocks
	if all {
		s.note("callback of %s in %s has unknown effects: heap havocked", name, outer.fn.String())
		s.havocAll(st)
	} else {
		names := make([]string, 0, len(mods))
		for m := range mods {
			names = append(names, m)
		}
		sort.Strings(names)
		topEntry := st.Top
		for _, m := range names {
			sortN := mods[m]
			if sortN == "?" {
				var ok bool
				if sortN, ok = st.Sorts[m]; !ok {
					continue
				}
			}
			before := s.heapGet(st, m, sortN)
			s.havocHeap(st, m, sortN)
			after := st.Heap[m]
			if strings.HasPrefix(m, "A:") || !real[m] {
				// slices grown by append: arrays that existed at the call keep their contents
				s.nfresh++
				r := fmt.Sprintf("r!%d", s.nfresh)
				s.assume(T{fmt.Sprintf("(forall ((%s Int)) (! (=> (<= %s %s) (= (select %s %s) (select %s %s))) :pattern ((select %s %s))))", r, r, topEntry.S, after.S, r, before.S, r, after.S, r), SBool})
			}
		}
		for _, c := range cells {
			names, sorts, _ := locHeaps(c)
			for i := range names {
				h := s.heapGet(st, names[i], sorts[i])
				st.Heap[names[i]] = s.define("H", Store(h, c.Ref, s.fresh("cell", arrElem(sorts[i]))))
			}
		}
		nt := s.fresh("top", SInt)
		s.assume(Ge(nt, topEntry))
		st.Top = nt
	}
	k := s.fresh("itk", SInt)
	s.assume(Imp(st.Reach, And(Le(I(0), k), Le(k, n))))
	for _, inv := range invs {
		s.assume(Imp(st.Reach, evalInv(inv, st, k, false)))
	}
	head := st.clone()
	// exhausted
	exh := head.clone()
	exhCond := s.define("exit", And(head.Reach, Eq(k, n)))
	exh.Reach = exhCond
	// one visit
	body := head.clone()
	body.Reach = s.define("visit", And(head.Reach, Lt(k, n)))
	cur := s.makeInterface(body, scalar(itemT, Select(seq, k)), itemT, types.NewInterfaceType(nil, nil))
	r := s.staticCall(outer, clo.Clo.Fn, clo.Clo.Bindings, []Val{cur}, body)
	cont := r.T0()
	stopCond := s.define("stop", And(body.Reach, Not(cont)))
	contCond := s.define("cont", And(body.Reach, cont))
	for i, inv := range invs {
		for _, sub := range splitClause(inv) {
			s.addObl(&Obligation{Name: fmt.Sprintf("%s/iterinv@%s.%s:step", fr.oblPfx, site, clauseNameSplit(inv, i, sub, len(splitClause(inv)))), Kind: "inv:step", Func: fr.oblPfx, Src: sub.Src, Guard: contCond, Formula: evalInv(sub, body, Add(k, I(1)), true)})
		}
	}
	stop := body.clone()
	stop.Reach = stopCond
	out := s.mergeStates([]T{exhCond, stopCond}, []*State{exh, stop})
	*st = *out
	if fr.iters == nil {
		fr.iters = map[string]iterInfo{}
	}
	if site != "" {
		fr.iters[site] = iterInfo{k: s.define("itk", Ite(exhCond, n, k)), n: n, seq: seq, rk: rk, stopped: stopCond}
	}
	if len(invs) == 0 {
		s.note("no invariant for the %s call in %s: only the state after at most one visit is known", name, fr.fn.String())
	}
	return res
}
