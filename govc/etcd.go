package main

// Model of the etcd clientv3 API used by PD (trusted base, DESIGN.md sections 2.5 / 4.3).
//
// Ghost state (heap families, also visible in specifications as ghost maps):
//   etcdhas : key -> Bool     key present
//   etcdval : key -> string   stored value (string handle)
//   etcdlease: key -> Int     lease attached to the key (0 = none)
//   etcdhas0/etcdval0/etcdlease0 : the same maps at the instant of the last transaction commit,
//                                  i.e. AFTER arbitrary interference by other clients and BEFORE the transaction's own effect
// Every etcd request first havocs the ghost maps (other members / other requests may have written anything:
// the rely is `true`), then acts atomically. A transaction is one atomic action: comparisons are evaluated on
// the commit-time state and the chosen branch applied. If Commit returns an error the state is either unchanged
// or updated (the caller cannot tell).
//
// Comparisons and operations are encoded in the leaves of the real clientv3.Cmp / clientv3.Op struct values
// (Target/Result/Key, t/key/val/leaseID), transaction contents in ghost arrays indexed by the Txn handle,
// so the encoding survives being stored in slices, passed through variadics and wrapped by kv.SlowLogTxn.

import (
	"fmt"
	"go/types"
	"strings"

	"golang.org/x/tools/go/ssa"
)

const etcdPkg = "go.etcd.io/etcd/clientv3"
const maxTxnItems = 6

var etcdGhosts = map[string]string{
	"etcdhas": "bool", "etcdval": "int", "etcdlease": "int",
	"etcdhas0": "bool", "etcdval0": "int", "etcdlease0": "int",
	"evclock": "int", "evlast": "int", "evres": "int", "evcount": "int", // ghost event clock (see `event` contract option)
	"etcdn": "int", // etcdn[0] = transactions committed by this process, etcdn[1] = those that changed the store
}

func ghostSort(vs string) string {
	switch vs {
	case "bool":
		return arrSort(SBool)
	case "bool2":
		return arrSort(arrSort(SBool))
	case "int2":
		return arrSort(arrSort(SInt))
	}
	return arrSort(SInt)
}

func (s *Session) ghostGet(st *State, name string) T {
	vs, ok := s.eng.db.Ghosts[name]
	if !ok {
		vs = etcdGhosts[name]
	}
	return s.heapGet(st, "X:"+name, ghostSort(vs))
}

func (s *Session) ghostSet(st *State, name string, t T) {
	st.Sorts["X:"+name] = t.Sort
	st.Heap["X:"+name] = s.define("G", t)
}

func leafIdx(t types.Type, path string) int {
	for i, l := range shape(t) {
		if l.Path == path {
			return i
		}
	}
	panic(fmt.Sprintf("no leaf %s in %v", path, t))
}

// etcd interference: anything may have happened to the store since we last looked.
func (s *Session) etcdInterfere(st *State) {
	for _, n := range []string{"etcdhas", "etcdval", "etcdlease"} {
		s.havocHeap(st, "X:"+n, ghostSort(etcdGhosts[n]))
	}
}

func (s *Session) txnArr(st *State, name string, elem string) T {
	return s.heapGet(st, "X:txn:"+name, arrSort(arrSort(elem)))
}
func (s *Session) txnCnt(st *State, name string) T {
	return s.heapGet(st, "X:txn:"+name, arrSort(SInt))
}

func cmpType(s *Session) types.Type { return s.eng.typesPkg(etcdPkg).Scope().Lookup("Cmp").Type() }
func opType(s *Session) types.Type  { return s.eng.typesPkg(etcdPkg).Scope().Lookup("Op").Type() }

func init() {
	// ---- comparison constructors ----
	mkCmp := func(target int64) builtinFn {
		return func(s *Session, fr *Frame, fn *ssa.Function, args []Val, st *State) Val {
			t := cmpType(s)
			v := zeroVal(t)
			v.L[leafIdx(t, ".Target")] = I(target)
			v.L[leafIdx(t, ".Key#ptr")] = args[0].T0() // the key's string handle
			return v
		}
	}
	builtinModels[etcdPkg+".CreateRevision"] = mkCmp(1)
	builtinModels[etcdPkg+".Value"] = mkCmp(3)
	builtinModels[etcdPkg+".Version"] = mkCmp(0)
	builtinModels[etcdPkg+".ModRevision"] = mkCmp(2)
	builtinModels[etcdPkg+".Compare"] = func(s *Session, fr *Frame, fn *ssa.Function, args []Val, st *State) Val {
		t := cmpType(s)
		v := Val{Typ: t, L: append([]T(nil), args[0].L...)}
		// result operator: "=" -> 0, "!=" -> 3, ">" -> 1, "<" -> 2
		op := args[1].T0()
		v.L[leafIdx(t, ".Result")] = Ite(Eq(op, s.strLit("=")), I(0), Ite(Eq(op, s.strLit("!=")), I(3), Ite(Eq(op, s.strLit(">")), I(1), I(2))))
		// compared value: the payload of the interface argument (int for revisions, string handle for values)
		v.L[leafIdx(t, ".TargetUnion")] = s.uf("payload", SInt, args[2].T0())
		return v
	}
	// ---- operations ----
	builtinModels[etcdPkg+".OpPut"] = func(s *Session, fr *Frame, fn *ssa.Function, args []Val, st *State) Val {
		t := opType(s)
		v := zeroVal(t)
		v.L[leafIdx(t, ".t")] = I(2)
		v.L[leafIdx(t, ".key#ptr")] = args[0].T0()
		v.L[leafIdx(t, ".val#ptr")] = args[1].T0()
		// options: WithLease
		lease := I(0)
		if n, ok := s.knownLen(args[2]); ok {
			h := s.heapGet(st, heapName("A", etcdPkg+".OpOption", ""), arrSort(arrSort(SInt)))
			for i := 0; i < n; i++ {
				o := Select(Select(h, args[2].L[0]), s.sidx(args[2].L[1], I(int64(i))))
				lease = Ite(s.uf("opt:islease", SBool, o), s.uf("opt:lease", SInt, o), lease)
			}
		} else {
			lease = s.fresh("lease", SInt)
		}
		v.L[leafIdx(t, ".leaseID")] = lease
		return v
	}
	builtinModels[etcdPkg+".OpDelete"] = func(s *Session, fr *Frame, fn *ssa.Function, args []Val, st *State) Val {
		t := opType(s)
		v := zeroVal(t)
		v.L[leafIdx(t, ".t")] = I(3)
		v.L[leafIdx(t, ".key#ptr")] = args[0].T0()
		return v
	}
	builtinModels[etcdPkg+".OpGet"] = func(s *Session, fr *Frame, fn *ssa.Function, args []Val, st *State) Val {
		t := opType(s)
		v := zeroVal(t)
		v.L[leafIdx(t, ".t")] = I(1)
		v.L[leafIdx(t, ".key#ptr")] = args[0].T0()
		return v
	}
	builtinModels[etcdPkg+".WithLease"] = func(s *Session, fr *Frame, fn *ssa.Function, args []Val, st *State) Val {
		o := s.fresh("optlease", SInt)
		s.assume(And(Gt(o, I(0)), s.uf("opt:islease", SBool, o), Eq(s.uf("opt:lease", SInt, o), args[0].T0())))
		return scalar(fn.Signature.Results().At(0).Type(), o)
	}
	builtinModels[etcdPkg+".WithPrefix"] = func(s *Session, fr *Frame, fn *ssa.Function, args []Val, st *State) Val {
		o := s.fresh("optprefix", SInt)
		s.assume(And(Gt(o, I(0)), Not(s.uf("opt:islease", SBool, o)), s.uf("opt:isprefix", SBool, o)))
		return scalar(fn.Signature.Results().At(0).Type(), o)
	}
	builtinModels[etcdPkg+".NewKV"] = func(s *Session, fr *Frame, fn *ssa.Function, args []Val, st *State) Val {
		r := s.uf("etcd:kv", SInt, args[0].T0())
		s.assume(Gt(r, I(0)))
		return scalar(fn.Signature.Results().At(0).Type(), r)
	}

	// ---- transactions ----
	invokeModels["("+etcdPkg+".KV).Txn"] = func(s *Session, fr *Frame, recv Val, args []Val, st *State, cc *ssa.CallCommon) Val {
		h := s.fresh("txn", SInt)
		s.assume(Gt(h, I(0)))
		for _, n := range []string{"ncmp", "nthen", "nelse"} {
			c := s.txnCnt(st, n)
			st.Heap["X:txn:"+n] = s.define("G", Store(c, h, I(0)))
		}
		return scalar(cc.Signature().Results().At(0).Type(), h)
	}
	invokeEffects["("+etcdPkg+".KV).Txn"] = map[string]string{"X:txn:ncmp": arrSort(SInt), "X:txn:nthen": arrSort(SInt), "X:txn:nelse": arrSort(SInt)}

	invokeModels["("+etcdPkg+".Txn).If"] = func(s *Session, fr *Frame, recv Val, args []Val, st *State, cc *ssa.CallCommon) Val {
		return s.txnAppend(fr, recv, args[0], st, "cmp", cc)
	}
	invokeModels["("+etcdPkg+".Txn).Then"] = func(s *Session, fr *Frame, recv Val, args []Val, st *State, cc *ssa.CallCommon) Val {
		return s.txnAppend(fr, recv, args[0], st, "then", cc)
	}
	invokeModels["("+etcdPkg+".Txn).Else"] = func(s *Session, fr *Frame, recv Val, args []Val, st *State, cc *ssa.CallCommon) Val {
		return s.txnAppend(fr, recv, args[0], st, "else", cc)
	}
	eff := map[string]string{}
	for _, k := range []string{"cmp", "then", "else"} {
		eff["X:txn:n"+k] = arrSort(SInt)
		for _, f := range []string{"a", "b", "c", "d"} {
			eff["X:txn:"+k+":"+f] = arrSort(arrSort(SInt))
		}
	}
	invokeEffects["("+etcdPkg+".Txn).If"] = eff
	invokeEffects["("+etcdPkg+".Txn).Then"] = eff
	invokeEffects["("+etcdPkg+".Txn).Else"] = eff
	invokeModels["("+etcdPkg+".Txn).Commit"] = func(s *Session, fr *Frame, recv Val, args []Val, st *State, cc *ssa.CallCommon) Val {
		return s.txnCommit(fr, recv, st, cc)
	}
	ceff := map[string]string{}
	for n, vs := range etcdGhosts {
		ceff["X:"+n] = ghostSort(vs)
	}
	invokeEffects["("+etcdPkg+".Txn).Commit"] = ceff

	// ---- plain reads ----
	invokeModels["("+etcdPkg+".KV).Get"] = func(s *Session, fr *Frame, recv Val, args []Val, st *State, cc *ssa.CallCommon) Val {
		return s.etcdGet(fr, args, st, cc)
	}
	geff := map[string]string{}
	for _, n := range []string{"etcdhas", "etcdval", "etcdlease"} {
		geff["X:"+n] = ghostSort(etcdGhosts[n])
	}
	invokeEffects["("+etcdPkg+".KV).Get"] = geff
}

// txnAppend: items (Cmp or Op struct values in a slice of statically known length) are appended to the
// transaction's ghost list `kind`; a new handle is returned (the real client returns the same object).
func (s *Session) txnAppend(fr *Frame, recv Val, items Val, st *State, kind string, cc *ssa.CallCommon) Val {
	h := recv.T0()
	var et types.Type
	var fields [4]string
	if kind == "cmp" {
		et = cmpType(s)
		fields = [4]string{".Target", ".Key#ptr", ".Result", ".TargetUnion"}
	} else {
		et = opType(s)
		fields = [4]string{".t", ".key#ptr", ".val#ptr", ".leaseID"}
	}
	cnt := s.txnCnt(st, "n"+kind)
	base := Select(cnt, h)
	names := [4]string{"a", "b", "c", "d"}
	n, ok := s.knownLen(items)
	if ok {
		for i := 0; i < n; i++ {
			el := s.load(st, &Loc{Kind: "A", TypeKey: typeKey(et), Ref: items.L[0], Idx: []T{s.sidx(items.L[1], I(int64(i)))}, Typ: et})
			for f := 0; f < 4; f++ {
				arr := s.txnArr(st, kind+":"+names[f], SInt)
				v := el.L[leafIdx(et, fields[f])]
				st.Heap["X:txn:"+kind+":"+names[f]] = s.define("G", Store(arr, h, Store(Select(arr, h), Add(base, I(int64(i))), v)))
			}
		}
		st.Heap["X:txn:n"+kind] = s.define("G", Store(cnt, h, Add(base, I(int64(n)))))
		return scalar(cc.Signature().Results().At(0).Type(), h)
	}
	// symbolic number of items: positions 0..maxTxnItems-1 are filled pointwise (Commit only looks at those;
	// a longer list fails the txnsize obligation there)
	ln := items.L[2]
	for f := 0; f < 4; f++ {
		arr := s.txnArr(st, kind+":"+names[f], SInt)
		inner := Select(arr, h)
		for p := 0; p < maxTxnItems; p++ {
			pos := I(int64(p))
			rel := s.define("rel", Sub(pos, base))
			el := s.load(st, &Loc{Kind: "A", TypeKey: typeKey(et), Ref: items.L[0], Idx: []T{s.sidx(items.L[1], rel)}, Typ: et})
			v := el.L[leafIdx(et, fields[f])]
			inner = Store(inner, pos, Ite(And(Le(base, pos), Lt(rel, ln)), v, Select(Select(arr, h), pos)))
		}
		st.Heap["X:txn:"+kind+":"+names[f]] = s.define("G", Store(arr, h, inner))
	}
	st.Heap["X:txn:n"+kind] = s.define("G", Store(cnt, h, Add(base, ln)))
	return scalar(cc.Signature().Results().At(0).Type(), h)
}

func (s *Session) txnCommit(fr *Frame, recv Val, st *State, cc *ssa.CallCommon) Val {
	h := recv.T0()
	s.etcdInterfere(st)
	has := s.ghostGet(st, "etcdhas")
	val := s.ghostGet(st, "etcdval")
	lease := s.ghostGet(st, "etcdlease")
	s.ghostSet(st, "etcdhas0", has)
	s.ghostSet(st, "etcdval0", val)
	s.ghostSet(st, "etcdlease0", lease)
	// comparisons
	ncmp := Select(s.txnCnt(st, "ncmp"), h)
	s.safety(fr, st, "txnsize", Le(ncmp, I(maxTxnItems)), "transaction has at most 6 comparisons (model bound)")
	var conds []T
	for i := 0; i < maxTxnItems; i++ {
		get := func(f string) T { return Select(Select(s.txnArr(st, "cmp:"+f, SInt), h), I(int64(i))) }
		target, key, result, v := get("a"), get("b"), get("c"), get("d")
		present := Select(has, key)
		// CREATE revision: 0 iff absent (only `= 0` and `!= 0`/`> 0` against 0 are interpreted)
		createEq0 := Not(present)
		create := Ite(Eq(v, I(0)),
			Ite(Eq(result, I(0)), createEq0, Ite(Or(Eq(result, I(3)), Eq(result, I(1))), present, TFalse)),
			s.uf("etcd:cmpcreate", SBool, key, result, v, Ite(present, I(1), I(0))))
		value := Ite(Eq(result, I(0)), And(present, Eq(Select(val, key), v)),
			Ite(Eq(result, I(3)), And(present, Not(Eq(Select(val, key), v))), s.uf("etcd:cmpvalue", SBool, key, result, v)))
		other := s.uf("etcd:cmpother", SBool, target, key, result, v)
		holds := Ite(Eq(target, I(1)), create, Ite(Eq(target, I(3)), value, other))
		conds = append(conds, Imp(Lt(I(int64(i)), ncmp), holds))
	}
	okAll := s.define("txnok", And(conds...))
	apply := func(kind string, has, val, lease T) (T, T, T) {
		n := Select(s.txnCnt(st, "n"+kind), h)
		for i := 0; i < maxTxnItems; i++ {
			get := func(f string) T { return Select(Select(s.txnArr(st, kind+":"+f, SInt), h), I(int64(i))) }
			typ, key, v, ls := get("a"), get("b"), get("c"), get("d")
			on := Lt(I(int64(i)), n)
			isPut := And(on, Eq(typ, I(2)))
			isDel := And(on, Eq(typ, I(3)))
			has = Ite(isPut, Store(has, key, TTrue), Ite(isDel, Store(has, key, TFalse), has))
			val = Ite(isPut, Store(val, key, v), val)
			lease = Ite(isPut, Store(lease, key, ls), lease)
		}
		return has, val, lease
	}
	nthen := Select(s.txnCnt(st, "nthen"), h)
	nelse := Select(s.txnCnt(st, "nelse"), h)
	s.safety(fr, st, "txnsize", And(Le(nthen, I(maxTxnItems)), Le(nelse, I(maxTxnItems))), "transaction has at most 6 operations per branch (model bound)")
	th, tv, tl := apply("then", has, val, lease)
	eh, ev, el := apply("else", has, val, lease)
	nh := Ite(okAll, th, eh)
	nv := Ite(okAll, tv, ev)
	nl := Ite(okAll, tl, el)
	// outcome
	err := s.fresh("commit_err", SInt)
	s.assume(Ge(err, I(0)))
	applied := s.fresh("commit_applied", SBool) // when err != nil the effect may or may not have happened
	did := Or(Eq(err, I(0)), applied)
	s.ghostSet(st, "etcdhas", Ite(did, nh, has))
	s.ghostSet(st, "etcdval", Ite(did, nv, val))
	s.ghostSet(st, "etcdlease", Ite(did, nl, lease))
	cntA := s.ghostGet(st, "etcdn")
	changed := And(did, Not(And(Eq(nh, has), Eq(nv, val), Eq(nl, lease))))
	cntA = Store(cntA, I(0), Add(Select(cntA, I(0)), I(1)))
	cntA = Store(cntA, I(1), Ite(changed, Add(Select(cntA, I(1)), I(1)), Select(cntA, I(1))))
	s.ghostSet(st, "etcdn", cntA)
	// response
	res := cc.Signature().Results()
	respT := res.At(0).Type()
	loc := s.alloc(st, respT.(*types.Pointer).Elem())
	rv := s.opaqueVal(loc.Typ, "txnresp")
	s.assume(And(s.rangeFacts(rv), s.refFacts(st, rv)))
	rv.L[leafIdx(loc.Typ, ".Succeeded")] = okAll
	s.txnResponses(st, &rv, loc.Typ, h, okAll, has, val)
	s.store(st, loc, rv)
	resp := Ite(Eq(err, I(0)), loc.Ref, I(0))
	// remember the transaction (for contracts that talk about the last commit)
	s.lastTxn = h
	return Val{Typ: res, Tup: []Val{scalar(respT, s.define("resp", resp)), scalar(res.At(1).Type(), err)}}
}

// etcdGet: (KV).Get(ctx, key, opts...). Without options: at most one kv with the stored value.
// With options (prefix reads) the result is an arbitrary list.
func (s *Session) etcdGet(fr *Frame, args []Val, st *State, cc *ssa.CallCommon) Val {
	s.etcdInterfere(st)
	key := args[1].T0()
	res := cc.Signature().Results()
	respT := res.At(0).Type()
	err := s.fresh("get_err", SInt)
	s.assume(Ge(err, I(0)))
	rt := respT.(*types.Pointer).Elem()
	loc := s.alloc(st, rt)
	rv := s.opaqueVal(rt, "getresp")
	s.assume(And(s.rangeFacts(rv), s.refFacts(st, rv)))
	nopts, known := s.knownLen(args[2])
	if known && nopts == 0 {
		has := Select(s.ghostGet(st, "etcdhas"), key)
		val := Select(s.ghostGet(st, "etcdval"), key)
		arrPtr := s.mkKvs(st, rt, val)
		rv.L[leafIdx(rt, ".Kvs#len")] = Ite(has, I(1), I(0))
		rv.L[leafIdx(rt, ".Kvs#off")] = I(0)
		rv.L[leafIdx(rt, ".Kvs#ptr")] = arrPtr
		s.getKeys[loc.Ref.S] = key
	} else {
		s.note("etcd Get with options in %s: result list arbitrary", fr.fn.String())
	}
	s.store(st, loc, rv)
	resp := Ite(Eq(err, I(0)), loc.Ref, I(0))
	return Val{Typ: res, Tup: []Val{scalar(respT, s.define("resp", resp)), scalar(res.At(1).Type(), err)}}
}

var _ = strings.Contains

// mkKvs allocates a one-element []*mvccpb.KeyValue whose Value holds the bytes of string handle val;
// rt is a struct type with a field `Kvs []*mvccpb.KeyValue`. Returns the backing array reference.
func (s *Session) mkKvs(st *State, rt types.Type, val T) T {
	var kvT types.Type
	stt := rt.Underlying().(*types.Struct)
	for i := 0; i < stt.NumFields(); i++ {
		if stt.Field(i).Name() == "Kvs" {
			kvT = stt.Field(i).Type().(*types.Slice).Elem()
		}
	}
	kvLoc := s.alloc(st, kvT.(*types.Pointer).Elem())
	kv := s.opaqueVal(kvLoc.Typ, "kv")
	s.assume(And(s.rangeFacts(kv), s.refFacts(st, kv)))
	bptr := s.newRef(st)
	bname := heapName("A", "byte", "")
	bh := s.heapGet(st, bname, arrSort(arrSort(SInt)))
	content := s.uf("str2bytes", arrSort(SInt), val)
	st.Heap[bname] = s.define("H", Store(bh, bptr, content))
	s.assume(Eq(s.uf("bytes2str", SInt, content, I(0), s.strlen(val)), val))
	s.assume(Eq(Eq(s.strlen(val), I(0)), Eq(val, I(0))))
	s.assume(Ge(s.strlen(val), I(0)))
	kv.L[leafIdx(kvLoc.Typ, ".Value#ptr")] = bptr
	kv.L[leafIdx(kvLoc.Typ, ".Value#off")] = I(0)
	kv.L[leafIdx(kvLoc.Typ, ".Value#len")] = s.strlen(val)
	kv.L[leafIdx(kvLoc.Typ, ".Key#ptr")] = s.newRef(st)
	s.store(st, kvLoc, kv)
	arrPtr := s.newRef(st)
	aname := heapName("A", typeKey(kvT), "")
	ah := s.heapGet(st, aname, arrSort(arrSort(SInt)))
	st.Heap[aname] = s.define("H", Store(ah, arrPtr, Store(Select(ah, arrPtr), I(0), kvLoc.Ref)))
	return arrPtr
}

// txnResponses models TxnResponse.Responses for the case PD uses: a failed comparison whose else branch
// starts with a Get. Responses then has one entry per else-operation and entry 0 is the range response
// for that key on the commit-time store.
func (s *Session) txnResponses(st *State, rv *Val, respT types.Type, h T, okAll T, has, val T) {
	defer func() {
		if r := recover(); r != nil {
			s.note("etcd model: TxnResponse.Responses left arbitrary (%v)", r)
		}
	}()
	nelse := Select(s.txnCnt(st, "nelse"), h)
	typ0 := Select(Select(s.txnArr(st, "else:a", SInt), h), I(0))
	key0 := Select(Select(s.txnArr(st, "else:b", SInt), h), I(0))
	isGet := And(Not(okAll), Ge(nelse, I(1)), Eq(typ0, I(1)))
	pb := s.eng.typesPkg("go.etcd.io/etcd/etcdserver/etcdserverpb")
	respOpT := pb.Scope().Lookup("ResponseOp").Type()
	wrapT := pb.Scope().Lookup("ResponseOp_ResponseRange").Type()
	rangeT := pb.Scope().Lookup("RangeResponse").Type()
	// RangeResponse
	rrLoc := s.alloc(st, rangeT)
	rr := s.opaqueVal(rangeT, "rangeresp")
	s.assume(And(s.rangeFacts(rr), s.refFacts(st, rr)))
	present := Select(has, key0)
	arrPtr := s.mkKvs(st, rangeT, Select(val, key0))
	rr.L[leafIdx(rangeT, ".Kvs#len")] = Ite(present, I(1), I(0))
	rr.L[leafIdx(rangeT, ".Kvs#off")] = I(0)
	rr.L[leafIdx(rangeT, ".Kvs#ptr")] = arrPtr
	s.store(st, rrLoc, rr)
	// wrapper and oneof interface
	wLoc := s.alloc(st, wrapT)
	w := zeroVal(wrapT)
	w.L[leafIdx(wrapT, ".ResponseRange")] = rrLoc.Ref
	s.store(st, wLoc, w)
	iface := s.makeInterface(st, scalar(types.NewPointer(wrapT), wLoc.Ref), types.NewPointer(wrapT), types.NewInterfaceType(nil, nil))
	opLoc := s.alloc(st, respOpT)
	op := s.opaqueVal(respOpT, "respop")
	s.assume(And(s.rangeFacts(op), s.refFacts(st, op)))
	op.L[leafIdx(respOpT, ".Response")] = iface.T0()
	s.store(st, opLoc, op)
	// Responses slice
	elemT := types.NewPointer(respOpT)
	sp := s.newRef(st)
	aname := heapName("A", typeKey(elemT), "")
	ah := s.heapGet(st, aname, arrSort(arrSort(SInt)))
	st.Heap[aname] = s.define("H", Store(ah, sp, Store(Select(ah, sp), I(0), opLoc.Ref)))
	li := leafIdx(respT, ".Responses#len")
	pi := leafIdx(respT, ".Responses#ptr")
	oi := leafIdx(respT, ".Responses#off")
	rv.L[li] = Ite(isGet, nelse, rv.L[li])
	rv.L[pi] = Ite(isGet, sp, rv.L[pi])
	rv.L[oi] = Ite(isGet, I(0), rv.L[oi])
}
