package main

import (
	"fmt"
	"strings"
	"unicode"
)

// Spec expression AST (Gobra-flavoured Go expressions).
type SExpr interface{}

type (
	SNum   struct{ V string }
	SStr   struct{ V string }
	SIdent struct{ Name string }
	SBin   struct {
		Op   string
		L, R SExpr
	}
	SUn struct {
		Op string
		X  SExpr
	}
	SSel struct {
		X    SExpr
		Name string
	}
	SIdx struct{ X, I SExpr }
	SUpd struct{ X, I, V SExpr }
	SSlice struct{ X, Lo, Hi SExpr }
	SCall struct {
		Fun  string
		Recv SExpr // for method-like calls x.f(args) ; nil otherwise
		Args []SExpr
	}
	SQuant struct {
		Forall bool
		Vars   []string
		Sorts  []string // "int" or "bool" per var
		Pats   []SExpr  // optional trigger terms: forall x :: { t1, t2 } body
		Body   SExpr
	}
)

type tok struct {
	k string // num str id op eof
	v string
}

func lexSpec(s string) ([]tok, error) {
	var out []tok
	i := 0
	for i < len(s) {
		c := s[i]
		switch {
		case c == ' ' || c == '\t' || c == '\n':
			i++
		case unicode.IsDigit(rune(c)):
			j := i
			for j < len(s) && (unicode.IsDigit(rune(s[j])) || s[j] == 'x' || s[j] == '_' || (s[j] >= 'a' && s[j] <= 'f') || (s[j] >= 'A' && s[j] <= 'F')) {
				j++
			}
			out = append(out, tok{"num", strings.ReplaceAll(s[i:j], "_", "")})
			i = j
		case c == '"':
			j := i + 1
			for j < len(s) && s[j] != '"' {
				if s[j] == '\\' {
					j++
				}
				j++
			}
			if j >= len(s) {
				return nil, fmt.Errorf("unterminated string")
			}
			out = append(out, tok{"str", s[i+1 : j]})
			i = j + 1
		case unicode.IsLetter(rune(c)) || c == '_' || c == '$':
			j := i
			for j < len(s) && (unicode.IsLetter(rune(s[j])) || unicode.IsDigit(rune(s[j])) || s[j] == '_' || s[j] == '$') {
				j++
			}
			out = append(out, tok{"id", s[i:j]})
			i = j
		default:
			ops := []string{"<==>", "==>", ":=", "::", "==", "!=", "<=", ">=", "&&", "||", "<<", ">>", "+", "-", "*", "/", "%", "<", ">", "!", "(", ")", "[", "]", ".", ",", ":", "?", "&", "|", "^", "{", "}"}
			matched := false
			for _, op := range ops {
				if strings.HasPrefix(s[i:], op) {
					out = append(out, tok{"op", op})
					i += len(op)
					matched = true
					break
				}
			}
			if !matched {
				return nil, fmt.Errorf("unexpected character %q in spec %q", c, s)
			}
		}
	}
	out = append(out, tok{"eof", ""})
	return out, nil
}

type sparser struct {
	toks []tok
	p    int
	src  string
}

func parseSpec(s string) (e SExpr, err error) {
	toks, err := lexSpec(s)
	if err != nil {
		return nil, err
	}
	p := &sparser{toks: toks, src: s}
	defer func() {
		if r := recover(); r != nil {
			err = fmt.Errorf("spec parse error in %q: %v", s, r)
		}
	}()
	e = p.expr()
	if p.peek().k != "eof" {
		panic(fmt.Sprintf("trailing token %q", p.peek().v))
	}
	return e, nil
}

func (p *sparser) peek() tok { return p.toks[p.p] }
func (p *sparser) next() tok { t := p.toks[p.p]; p.p++; return t }
func (p *sparser) isOp(v string) bool {
	t := p.peek()
	return t.k == "op" && t.v == v
}
func (p *sparser) expect(v string) {
	t := p.next()
	if t.v != v {
		panic(fmt.Sprintf("expected %q got %q", v, t.v))
	}
}

func (p *sparser) expr() SExpr {
	t := p.peek()
	if t.k == "id" && (t.v == "forall" || t.v == "exists") {
		p.next()
		q := &SQuant{Forall: t.v == "forall"}
		for {
			id := p.next()
			if id.k != "id" {
				panic("quantifier variable expected")
			}
			q.Vars = append(q.Vars, id.v)
			sort := "int"
			if !(p.isOp(",") || p.isOp("::")) {
				sort = ""
				for !(p.isOp(",") || p.isOp("::")) {
					t := p.next()
					if t.k == "eof" {
						panic("unterminated quantifier binder")
					}
					sort += t.v
				}
			}
			q.Sorts = append(q.Sorts, sort)
			if p.isOp(",") {
				p.next()
				continue
			}
			break
		}
		p.expect("::")
		if p.peek().k == "op" && p.peek().v == "{" {
			p.next()
			for {
				q.Pats = append(q.Pats, p.expr())
				if p.isOp(",") {
					p.next()
					continue
				}
				break
			}
			p.expect("}")
		}
		q.Body = p.expr()
		return q
	}
	return p.iff()
}

func (p *sparser) iff() SExpr {
	l := p.imp()
	for p.isOp("<==>") {
		p.next()
		r := p.imp()
		l = &SBin{"<==>", l, r}
	}
	return l
}

func (p *sparser) imp() SExpr {
	l := p.or()
	if p.isOp("==>") {
		p.next()
		var r SExpr
		t := p.peek()
		if t.k == "id" && (t.v == "forall" || t.v == "exists") {
			r = p.expr()
		} else {
			r = p.imp()
		}
		return &SBin{"==>", l, r}
	}
	if p.isOp("?") {
		p.next()
		a := p.expr()
		p.expect(":")
		b := p.expr()
		return &SCall{Fun: "ite", Args: []SExpr{l, a, b}}
	}
	return l
}

func (p *sparser) or() SExpr {
	l := p.and()
	for p.isOp("||") {
		p.next()
		l = &SBin{"||", l, p.and()}
	}
	return l
}
func (p *sparser) and() SExpr {
	l := p.cmp()
	for p.isOp("&&") {
		p.next()
		var r SExpr
		t := p.peek()
		if t.k == "id" && (t.v == "forall" || t.v == "exists") {
			r = p.expr()
		} else {
			r = p.cmp()
		}
		l = &SBin{"&&", l, r}
	}
	return l
}
func (p *sparser) cmp() SExpr {
	l := p.add()
	for {
		t := p.peek()
		if t.k == "op" && (t.v == "==" || t.v == "!=" || t.v == "<" || t.v == "<=" || t.v == ">" || t.v == ">=") {
			p.next()
			r := p.add()
			l = &SBin{t.v, l, r}
			continue
		}
		return l
	}
}
func (p *sparser) add() SExpr {
	l := p.mul()
	for {
		t := p.peek()
		if t.k == "op" && (t.v == "+" || t.v == "-" || t.v == "|" || t.v == "^") {
			p.next()
			l = &SBin{t.v, l, p.mul()}
			continue
		}
		return l
	}
}
func (p *sparser) mul() SExpr {
	l := p.unary()
	for {
		t := p.peek()
		if t.k == "op" && (t.v == "*" || t.v == "/" || t.v == "%" || t.v == "<<" || t.v == ">>" || t.v == "&") {
			p.next()
			l = &SBin{t.v, l, p.unary()}
			continue
		}
		return l
	}
}
func (p *sparser) unary() SExpr {
	t := p.peek()
	if t.k == "op" && (t.v == "!" || t.v == "-") {
		p.next()
		return &SUn{t.v, p.unary()}
	}
	if t.k == "op" && t.v == "*" { // explicit deref: ignored (auto-deref)
		p.next()
		return p.unary()
	}
	return p.postfix()
}
func (p *sparser) postfix() SExpr {
	e := p.primary()
	for {
		switch {
		case p.isOp("."):
			p.next()
			id := p.next()
			if id.k != "id" {
				panic("field name expected")
			}
			if p.isOp("(") {
				p.next()
				args := p.args()
				e = &SCall{Fun: id.v, Recv: e, Args: args}
			} else {
				e = &SSel{e, id.v}
			}
		case p.isOp("["):
			p.next()
			if p.isOp(":") {
				p.next()
				hi := p.expr()
				p.expect("]")
				e = &SSlice{e, nil, hi}
				continue
			}
			i := p.expr()
			if p.isOp(":=") {
				p.next()
				v := p.expr()
				p.expect("]")
				e = &SUpd{e, i, v}
			} else if p.isOp(":") {
				p.next()
				var hi SExpr
				if !p.isOp("]") {
					hi = p.expr()
				}
				p.expect("]")
				e = &SSlice{e, i, hi}
			} else {
				p.expect("]")
				e = &SIdx{e, i}
			}
		default:
			return e
		}
	}
}
func (p *sparser) args() []SExpr {
	var args []SExpr
	if p.isOp(")") {
		p.next()
		return args
	}
	for {
		args = append(args, p.expr())
		if p.isOp(",") {
			p.next()
			continue
		}
		p.expect(")")
		return args
	}
}
func (p *sparser) primary() SExpr {
	t := p.next()
	switch t.k {
	case "num":
		return &SNum{t.v}
	case "str":
		return &SStr{t.v}
	case "id":
		if p.isOp("(") {
			p.next()
			return &SCall{Fun: t.v, Args: p.args()}
		}
		return &SIdent{t.v}
	case "op":
		if t.v == "(" {
			e := p.expr()
			p.expect(")")
			return e
		}
	}
	panic(fmt.Sprintf("unexpected token %q", t.v))
}
