package main

import (
	"strconv"
	"path"
	"fmt"
	"os"
	"go/types"
	"sort"
	"strings"

	"golang.org/x/tools/go/ssa"
)

var noEffectPkgs = []string{
	"github.com/pingcap/log", "go.uber.org/zap", "github.com/prometheus/", "github.com/pingcap/failpoint",
	"log", "github.com/sirupsen/logrus", "github.com/opentracing/", "github.com/juju/ratelimit", "github.com/tikv/pd/pkg/logutil",
}

// functions of these packages have no effect on the modelled heap; their results are
// uninterpreted functions of their arguments (deterministic, side-effect free).
var purePkgs = []string{
	"strconv", "path", "path/filepath", "fmt", "strings", "bytes", "math", "errors", "unicode", "unicode/utf8",
	"encoding/hex", "encoding/binary", "github.com/pingcap/errors", "github.com/pkg/errors", "net/url", "regexp", "math/bits",
	"github.com/coreos/go-semver/semver", "github.com/gogo/protobuf/proto", "github.com/golang/protobuf/proto", "reflect", "encoding/json",
	"github.com/docker/go-units", "context", "github.com/phf/go-queue", "google.golang.org/grpc/status", "google.golang.org/grpc/codes", "google.golang.org/grpc/metadata", "go.etcd.io/etcd/clientv3", "go.etcd.io/etcd/etcdserver/etcdserverpb", "go.etcd.io/etcd/mvcc/mvccpb",
}

// results of these are arbitrary (not functions of the arguments) but the heap is untouched.
var nondetFns = map[string]bool{
	"math/rand.Intn": true, "math/rand.Int63n": true, "math/rand.Int": true, "math/rand.Int63": true,
	"math/rand.Float64": true, "math/rand.Perm": true, "math/rand.Int31n": true, "time.Since": true, "time.Sleep": true,
	"(*math/rand.Rand).Intn": true, "(*math/rand.Rand).Int63n": true, "(*math/rand.Rand).Perm": true,
}

func hasPrefixAny(s string, ps []string) bool {
	for _, p := range ps {
		if strings.HasSuffix(p, "/") {
			if strings.HasPrefix(s, p) {
				return true
			}
		} else if s == p || strings.HasPrefix(s, p+"/") {
			return true
		}
	}
	return false
}

func fnPkgPath(fn *ssa.Function) string {
	if fn.Pkg != nil {
		return fn.Pkg.Pkg.Path()
	}
	if fn.Object() != nil && fn.Object().Pkg() != nil {
		return fn.Object().Pkg().Path()
	}
	if fn.Parent() != nil {
		return fnPkgPath(fn.Parent())
	}
	return ""
}

func (s *Session) call(fr *Frame, cc *ssa.CallCommon, st *State, instr *ssa.Call) Val {
	args := make([]Val, len(cc.Args))
	for i, a := range cc.Args {
		args[i] = s.valueOf(fr, a)
	}
	if fr.top && os.Getenv("GOVC_VAC") != "" {
		s.addObl(&Obligation{Name: fmt.Sprintf("%s/dbgvac@%s@b%d", fr.oblPfx, calleeName(cc), fr.curBlock.Index), Kind: "vacuity", Func: fr.oblPfx, Src: "debug reachability", Guard: TTrue, Formula: Not(st.Reach)})
	}
	if fr.top && fr.curBlock != nil && !fr.vacDone[fr.curBlock.Index] && instr != nil && s.needsReachCheck(fr, cc, instr) {
		// guard against vacuous proofs: call sites must be reachable under the accumulated assumptions
		// (one check per basic block, placed before any assertion of this call is assumed)
		if fr.vacDone == nil {
			fr.vacDone = map[int]bool{}
		}
		fr.vacDone[fr.curBlock.Index] = true
		if n := calleeName(cc); n != "" {
			s.ensureCallSites(fr)
			s.addObl(&Obligation{Name: fmt.Sprintf("%s/reach@%s#%d/vacuity", fr.oblPfx, n, fr.callSites[instr]), Kind: "vacuity", Func: fr.oblPfx, Src: "call site reachable (assumptions consistent)", Guard: TTrue, Formula: Not(st.Reach)})
		}
	}
	if fr.top && fr.contract != nil && len(fr.contract.Interf) > 0 {
		s.interfere(fr, cc, st, instr)
	}
	if fr.top && instr != nil {
		if n := calleeName(cc); n != "" {
			s.ensureCallSites(fr)
			fr.curSite = fmt.Sprintf("%s#%d", n, fr.callSites[instr])
			fr.curInstr = instr
		}
	}
	fr.curMode = ""
	if s.topContract != nil && len(s.topContract.Modes) > 0 && !fr.top {
		// `at NAME * mode M`: every call of NAME, also inside inlined callees
		if n := calleeName(cc); n != "" {
			if m, ok := s.topContract.Modes[n+"#*"]; ok {
				fr.curMode = m
				defer func() { fr.curMode = "" }()
			}
		}
	}
	if fr.top && fr.contract != nil && len(fr.contract.Modes) > 0 && instr != nil {
		if n := calleeName(cc); n != "" {
			if m, ok := fr.contract.Modes[n+"#*"]; ok {
				fr.curMode = m
			}
		}
	}
	if fr.top && fr.contract != nil && len(fr.contract.Modes) > 0 && instr != nil && fr.curMode == "" {
		if n := calleeName(cc); n != "" {
			s.ensureCallSites(fr)
			fr.curMode = fr.contract.Modes[fmt.Sprintf("%s#%d", n, fr.callSites[instr])]
		}
		defer func() { fr.curMode = "" }()
	}
	if fr.top && fr.contract != nil && len(fr.contract.Ats) > 0 {
		s.callSiteAsserts(fr, cc, st, instr, nil)
		res := s.call2(fr, cc, args, st, instr)
		s.recordCallResult(fr, cc, instr, res)
		s.callSiteAsserts(fr, cc, st, instr, &res)
		return res
	}
	res := s.call2(fr, cc, args, st, instr)
	if fr.top {
		s.recordCallResult(fr, cc, instr, res)
	}
	return res
}

// recordCallResult remembers the value returned by the k-th call (source order) of a callee name, so that
// specifications can refer to it as callres("Name", k).
func (s *Session) recordCallResult(fr *Frame, cc *ssa.CallCommon, instr *ssa.Call, res Val) {
	if instr == nil {
		return
	}
	s.ensureCallSites(fr)
	if fr.callResults == nil {
		fr.callResults = map[string]Val{}
	}
	fr.callResults[fmt.Sprintf("%s#%d", calleeName(cc), fr.callSites[instr])] = res
}

func (s *Session) ensureCallSites(fr *Frame) {
	if fr.callSites != nil {
		return
	}
	fr.callSites = map[ssa.Instruction]int{}
	byName := map[string][]ssa.Instruction{}
	for _, b := range fr.fn.Blocks {
		for _, in := range b.Instrs {
			if c, ok := in.(*ssa.Call); ok {
				n := calleeName(&c.Call)
				byName[n] = append(byName[n], in)
			}
		}
	}
	for _, list := range byName {
		sort.SliceStable(list, func(i, j int) bool { return list[i].Pos() < list[j].Pos() })
		for i, in := range list {
			fr.callSites[in] = i + 1
		}
	}
}

func (s *Session) call2(fr *Frame, cc *ssa.CallCommon, args []Val, st *State, instr *ssa.Call) Val {
	resT := cc.Signature().Results()
	if cc.IsInvoke() {
		recv := s.valueOf(fr, cc.Value)
		return s.invoke(fr, cc, recv, args, st)
	}
	switch callee := cc.Value.(type) {
	case *ssa.Builtin:
		return s.builtin(fr, callee, cc, args, st, instr)
	case *ssa.Function:
		return s.staticCall(fr, callee, nil, args, st)
	case *ssa.MakeClosure:
		cv := s.valueOf(fr, callee)
		return s.staticCall(fr, cv.Clo.Fn, cv.Clo.Bindings, args, st)
	}
	cv := s.valueOf(fr, cc.Value)
	if cv.Clo != nil {
		return s.staticCall(fr, cv.Clo.Fn, cv.Clo.Bindings, args, st)
	}
	if cv.Fn != nil {
		return s.staticCall(fr, cv.Fn, nil, args, st)
	}
	if nt, ok := cc.Value.Type().(*types.Named); ok && nt.Obj().Pkg() != nil && (hasPrefixAny(nt.Obj().Pkg().Path(), purePkgs) || hasPrefixAny(nt.Obj().Pkg().Path(), noEffectPkgs)) {
		return s.freshResult(st, resT, "fnval")
	}
	if cc.Signature().Params().Len() == 0 && noRefs(resT) {
		s.note("call through a parameterless function value (configuration getter) in %s: assumed to have no effect, result arbitrary", fr.fn.String())
		return s.freshResult(st, resT, "getter")
	}
	if s.topContract != nil && s.topContract.Options["pureparams"] != "" {
		s.note("ASSUMED in %s (option pureparams): function values received as parameters (comparers, predicates) have no effect on the modelled state; their results are arbitrary", fr.fn.String())
		return s.freshResult(st, resT, "fnparam")
	}
	if st.Reach.S == "false" {
		return s.freshResult(st, resT, "dead") // statically unreachable: nothing happens
	}
	if os.Getenv("GOVC_DEBUG") != "" {
		fmt.Fprintf(os.Stderr, "unknown fn value %s = %T %v in block %d; val=%+v\n", cc.Value.Name(), cc.Value, cc.Value, fr.curBlockIdx(), cv)
	}
	s.note("call through unknown function value in %s: heap havocked", fr.fn.String())
	s.havocAll(st)
	return s.freshResult(st, resT, "dyn")
}

func (fr *Frame) curBlockIdx() int {
	if fr.curBlock != nil {
		return fr.curBlock.Index
	}
	return -1
}

func (s *Session) freshResult(st *State, res *types.Tuple, hint string) Val {
	var v Val
	switch res.Len() {
	case 0:
		return Val{Typ: res}
	case 1:
		v = s.opaqueVal(res.At(0).Type(), "r_"+hint)
	default:
		v = s.opaqueVal(res, "r_"+hint)
	}
	s.assume(Imp(st.Reach, s.rangeFacts(v)))
	return v
}

func packResults(res *types.Tuple, vals []Val) Val {
	switch res.Len() {
	case 0:
		return Val{Typ: res}
	case 1:
		return vals[0]
	}
	return Val{Typ: res, Tup: vals}
}

func (s *Session) staticCall(fr *Frame, fn *ssa.Function, bindings []Val, args []Val, st *State) Val {
	name := fn.String()
	res := fn.Signature.Results()
	if h, ok := builtinModels[name]; ok {
		return h(s, fr, fn, args, st)
	}
	if c := s.contractFor(fn); c != nil {
		s.callBindings = bindings
		defer func() { s.callBindings = nil }()
		return s.applyContract(fr, c, fn, fn.Signature, args, st)
	}
	pkg := fnPkgPath(fn)
	if hasPrefixAny(pkg, noEffectPkgs) {
		return s.freshResult(st, res, fn.Name())
	}
	if nondetFns[name] {
		return s.freshResult(st, res, fn.Name())
	}
	pk, key := s.funcKey(fn)
	opaque := s.eng.db.Opaque[pk+"::"+key]
	if s.eng.db.Havoc[pk+"::"+key] {
		s.note("call to %s declared `havoc`: whole heap forgotten, result arbitrary", name)
		s.havocAll(st)
		return s.freshResult(st, res, fn.Name())
	}
	inRepo := strings.HasPrefix(pkg, s.eng.modulePath)
	if len(fn.Blocks) > 0 && !opaque && (inRepo || s.eng.db.Transp[pk+"::"+key]) {
		rec := false
		for _, f := range fr.stack {
			if f == fn {
				rec = true
			}
		}
		if !rec && fr.depth < maxInlineDepth {
			return s.inline(fr, fn, bindings, args, st)
		}
		if rec {
			s.note("recursive call to %s without contract: heap havocked", name)
		} else {
			s.note("inline depth exceeded at %s: heap havocked", name)
		}
		s.havocAll(st)
		return s.freshResult(st, res, fn.Name())
	}
	if strings.HasPrefix(pkg, "github.com/pingcap/kvproto") || pkg == "go.etcd.io/etcd/etcdserver/etcdserverpb" || pkg == "go.etcd.io/etcd/mvcc/mvccpb" {
		if strings.HasPrefix(fn.Name(), "Get") && len(fn.Blocks) > 0 && fr.depth < maxInlineDepth+2 {
			return s.inline(fr, fn, bindings, args, st)
		}
		switch fn.Name() {
		case "Unmarshal", "XXX_Unmarshal", "UnmarshalJSON", "Reset", "XXX_Merge", "XXX_DiscardUnknown":
			// decoding fills the receiver with arbitrary content
			if len(args) > 0 && isPointer(args[0].Typ) {
				loc := s.toLoc(args[0])
				nv := s.opaqueVal(loc.Typ, "decoded")
				s.assume(Imp(st.Reach, And(s.rangeFacts(nv), s.refFacts(st, nv))))
				s.store(st, loc, nv)
				nt := s.fresh("top", SInt)
				s.assume(Ge(nt, st.Top))
				st.Top = nt
			}
			return s.freshResult(st, res, fn.Name())
		}
		return s.pureCall(fn, args, st)
	}
	if hasPrefixAny(pkg, purePkgs) && writesThroughArgs(fn.Name()) && name != "encoding/json.Unmarshal" && name != "(*encoding/json.Decoder).Decode" {
		// library functions of the "side-effect free" packages that nevertheless write through an argument
		// (proto.Unmarshal / Merge, binary.Read / PutUint64, fmt.Sscan...): everything reachable is forgotten
		s.note("%s writes through its arguments: heap havocked", name)
		s.havocAll(st)
		return s.freshResult(st, res, fn.Name())
	}
	if name == "encoding/json.Unmarshal" || name == "(*encoding/json.Decoder).Decode" {
		// decoding writes into the object its last argument points to: that object gets arbitrary content (the
		// package is otherwise treated as side-effect free, which is wrong for exactly these two functions)
		tgt := args[len(args)-1]
		if org, ok := s.ifaceOrigin[tgt.T0().S]; ok && isPointer(org.typ) {
			loc := s.toLoc(org.val)
			nv := s.opaqueVal(loc.Typ, "decoded")
			s.assume(Imp(st.Reach, And(s.rangeFacts(nv), s.refFacts(st, nv))))
			s.store(st, loc, nv)
			nt := s.fresh("top", SInt)
			s.assume(Ge(nt, st.Top))
			st.Top = nt
			s.note("%s: the decoded object gets arbitrary content", name)
		} else {
			s.note("%s into a target of unknown shape: heap havocked", name)
			s.havocAll(st)
		}
		return s.freshResult(st, res, fn.Name())
	}
	if hasPrefixAny(pkg, purePkgs) || opaque {
		return s.pureCall(fn, args, st)
	}
	s.note("call to %s (no contract, not inlinable): heap havocked, result arbitrary", name)
	s.havocAll(st)
	return s.freshResult(st, res, fn.Name())
}

// pureCall: result leaves are uninterpreted functions of the argument leaves.
func (s *Session) pureCall(fn *ssa.Function, args []Val, st *State) Val {
	s.note("%s treated as a deterministic side-effect-free function (uninterpreted)", fn.String())
	res := fn.Signature.Results()
	var in []T
	arity := ""
	for _, a := range args {
		a = s.materialize(a)
		if a.Tup != nil {
			continue
		}
		if a.Typ != nil {
			if sl, isSl := a.Typ.Underlying().(*types.Slice); isSl && len(a.L) == 3 {
				// slices are passed by contents: known length -> the elements; otherwise (contents, off, len)
				els := shape(sl.Elem())
				if n, ok := s.knownLen(a); ok && len(els) == 1 {
					arity += fmt.Sprintf("/%d", n)
					for i := 0; i < n; i++ {
						ev := s.load(st, &Loc{Kind: "A", TypeKey: typeKey(sl.Elem()), Ref: a.L[0], Idx: []T{s.sidx(a.L[1], I(int64(i)))}, Typ: sl.Elem()})
						in = append(in, ev.L...)
					}
					continue
				}
				if len(els) == 1 {
					h := s.heapGet(st, heapName("A", typeKey(sl.Elem()), ""), arrSort(arrSort(els[0].Sort)))
					in = append(in, Select(h, a.L[0]), a.L[1], a.L[2])
					continue
				}
			}
		}
		in = append(in, a.L...)
	}
	mk := func(t types.Type, idx int) Val {
		v := Val{Typ: t}
		if fn.String() == "path.Join" {
			// path.Join of string literals only: the literal it evaluates to
			if r, ok := s.foldPathJoin(in); ok {
				v.L = append(v.L, r)
				return v
			}
		}
		for _, l := range shape(t) {
			v.L = append(v.L, s.uf(fmt.Sprintf("pure:%s#%d%s%s", fn.String(), idx, l.Path, arity), l.Sort, in...))
		}
		return v
	}
	var vals []Val
	for i := 0; i < res.Len(); i++ {
		v := mk(res.At(i).Type(), i)
		s.assume(And(s.rangeFacts(v), s.refFacts(st, v)))
		vals = append(vals, v)
	}
	// error constructors never return nil
	fs := fn.String()
	if res.Len() == 1 && (fs == "errors.New" || fs == "fmt.Errorf" || strings.HasPrefix(fs, "(*github.com/pingcap/errors.Error).") ||
		fs == "github.com/pingcap/errors.New" || fs == "github.com/pingcap/errors.Errorf" || fs == "github.com/pkg/errors.New" || fs == "github.com/pkg/errors.Errorf" ||
		fs == "google.golang.org/grpc/status.Errorf") {
		if len(vals[0].L) == 1 && vals[0].L[0].Sort == SInt {
			s.assume(Gt(vals[0].L[0], I(0)))
		}
	}
	return packResults(res, vals)
}

func (s *Session) inline(fr *Frame, fn *ssa.Function, bindings []Val, args []Val, st *State) Val {
	s.inlined[fn.String()] = true
	nf := &Frame{sess: s, fn: fn, params: args, depth: fr.depth + 1, stack: append(append([]*ssa.Function(nil), fr.stack...), fn), oblPfx: fr.oblPfx, nSafety: fr.nSafety}
	// bind free variables
	saved := st.Reach
	nfvals := map[ssa.Value]Val{}
	for i, fv := range fn.FreeVars {
		nfvals[fv] = bindings[i]
	}
	nf.vals = nil
	results, out := s.execBodyWith(nf, st, nfvals)
	_ = saved
	if out == nil {
		st.Reach = TFalse
		return s.opaqueVal(fn.Signature.Results(), "noret")
	}
	*st = *out
	return packResults(fn.Signature.Results(), results)
}

func (s *Session) execBodyWith(fr *Frame, st *State, pre map[ssa.Value]Val) ([]Val, *State) {
	fr.preVals = pre
	return s.execBody(fr, st)
}

// ---- interface invocation ----

func (s *Session) invoke(fr *Frame, cc *ssa.CallCommon, recv Val, args []Val, st *State) Val {
	m := cc.Method
	res := cc.Signature().Results()
	full := m.FullName() // e.g. (github.com/tikv/pd/server/kv.Base).Save
	// static resolution when the dynamic type is known
	if len(recv.L) == 1 {
		if org, ok := s.ifaceOrigin[recv.L[0].S]; ok {
			ms := s.eng.prog.MethodSets.MethodSet(org.typ)
			sel := ms.Lookup(m.Pkg(), m.Name())
			if sel != nil {
				if f := s.eng.prog.MethodValue(sel); f != nil {
					return s.staticCall(fr, f, nil, append([]Val{org.val}, args...), st)
				}
			}
		}
	}
	if h, ok := invokeModels[full]; ok {
		return h(s, fr, recv, args, st, cc)
	}
	// contract on the interface method
	if named, ok := cc.Value.Type().(*types.Named); ok && named.Obj().Pkg() != nil {
		key := named.Obj().Pkg().Path() + "::(" + named.Obj().Name() + ")." + m.Name()
		if c := s.eng.db.Contracts[key]; c != nil {
			return s.applyContract(fr, c, nil, cc.Signature(), append([]Val{recv}, args...), st)
		}
	}
	if m.Pkg() != nil && strings.HasPrefix(m.Pkg().Path(), "github.com/pingcap/kvproto") {
		s.note("remote call %s (gRPC client stub): no effect on this process's modelled state, arbitrary result", full)
		return s.freshResult(st, res, m.Name())
	}
	if m.Pkg() != nil && (hasPrefixAny(m.Pkg().Path(), noEffectPkgs) || m.Pkg().Path() == etcdPkg || m.Pkg().Path() == "context") {
		if m.Pkg().Path() == etcdPkg {
			s.note("etcd client call %s: no effect on modelled state, arbitrary result", full)
		}
		return s.freshResult(st, res, m.Name())
	}
	if full == "(error).Error" {
		r := s.uf("errstr", SInt, recv.T0())
		return scalar(types.Typ[types.String], r)
	}
	s.note("interface call %s with unknown dynamic type in %s: heap havocked", full, fr.fn.String())
	s.havocAll(st)
	return s.freshResult(st, res, m.Name())
}

type ifaceOrg struct {
	typ types.Type
	val Val
}

// ---- contract application at a call site ----

func sigParamNames(fn *ssa.Function, sig *types.Signature, c *Contract) []string {
	var names []string
	if fn != nil && len(fn.Params) > 0 {
		for _, p := range fn.Params {
			names = append(names, p.Name())
		}
		return names
	}
	if sig.Recv() != nil || strings.HasPrefix(c.FuncKey, "(") {
		n := "self"
		if sig.Recv() != nil && sig.Recv().Name() != "" && sig.Recv().Name() != "_" {
			n = sig.Recv().Name()
		}
		names = append(names, n)
	}
	for i := 0; i < sig.Params().Len(); i++ {
		n := sig.Params().At(i).Name()
		if n == "" || n == "_" {
			n = fmt.Sprintf("p%d", i)
		}
		names = append(names, n)
	}
	return names
}

func bindResults(env map[string]Val, sig *types.Signature, vals []Val) {
	res := sig.Results()
	for i := 0; i < res.Len(); i++ {
		env[fmt.Sprintf("r%d", i)] = vals[i]
		if n := res.At(i).Name(); n != "" && n != "_" {
			env[n] = vals[i]
		}
	}
	if res.Len() == 1 {
		env["result"] = vals[0]
	}
}

func (s *Session) applyContract(fr *Frame, c *Contract, fn *ssa.Function, sig *types.Signature, args []Val, st *State) Val {
	ckey := c.Pkg + "::" + c.FuncKey
	s.used[ckey] = true
	names := sigParamNames(fn, sig, c)
	env := map[string]Val{}
	for i, n := range names {
		if i < len(args) {
			env[n] = args[i]
		}
	}
	// a closure under contract: the names of its captured variables denote their content at the call
	if fn != nil && len(fn.FreeVars) > 0 && len(s.callBindings) == len(fn.FreeVars) {
		for i, fv := range fn.FreeVars {
			b := s.callBindings[i]
			if _, isPtr := fv.Type().Underlying().(*types.Pointer); isPtr {
				env[fv.Name()] = s.load(st, s.toLoc(b))
			}
		}
	}
	s.callBindings = nil
	short := c.FuncKey
	fr.callOrd[short]++
	ord := fr.callOrd[short]
	pkgT := s.eng.typesPkg(c.Pkg)
	se := &SpecEnv{sess: s, pkg: pkgT, vars: env, st: st, old: st}
	mode := fr.curMode
	fr.curMode = ""
	if i := strings.Index(mode, "@"); i >= 0 {
		if s.runMode == mode[i+1:] {
			mode = mode[:i]
		} else {
			mode = ""
		}
	}
	for i, rq := range c.Requires {
		if rq.Mode != "" && rq.Mode != mode {
			continue
		}
		subs := splitClause(rq)
		for _, sub := range subs {
			f := s.evalBool(se, sub.E)
			g := s.evalGoal(se, sub.E)
			if fr.top && fr.contract != nil && fr.contract.Options["assumecallpre"] != "" {
				// `option assumecallpre`: this (thin, structural) contract does not establish its callees' preconditions;
				// they are assumed and listed as an assumption in the evidence
				if fr.nSafety["_prenoted"] == 0 {
					fr.nSafety["_prenoted"] = 1
					s.note("ASSUMED in %s: option assumecallpre - the preconditions of the functions it calls are assumed, not proved here", fr.fn.String())
				}
			} else {
				s.addObl(&Obligation{Name: fmt.Sprintf("%s/pre@%s#%d.%s", fr.oblPfx, short, ord, clauseNameSplit(rq, i, sub, len(subs))), Kind: "pre", Func: fr.oblPfx, Src: "requires " + sub.Src + "   [callee " + ckey + "]", Guard: st.Reach, Formula: g})
			}
			s.assume(Imp(st.Reach, f)) // continue as if it held (avoid cascades)
		}
	}
	old := st.clone()
	// havoc the frame
	s.havocItems(se, c.Modifies, st)
	// option callback: the callee may invoke the closures it is given any number of times; their effects
	// (computed by scanning the closure bodies) are forgotten. Nothing else is touched by the callee.
	if c.Options["callback"] != "" {
		for _, a := range args {
			var cf *ssa.Function
			if a.Clo != nil {
				cf = a.Clo.Fn
			} else if a.Fn != nil {
				cf = a.Fn
			}
			if cf == nil {
				continue
			}
			mods := map[string]string{}
			savedReal, savedRoots, savedBlocks := s.scanReal, s.scanRoots, s.scanBlocks
			s.scanReal, s.scanRoots, s.scanBlocks = map[string]bool{}, map[string][]T{}, map[*ssa.BasicBlock]bool{}
			all := false
			for _, b := range cf.Blocks {
				if s.scanInstrs(nil, b.Instrs, mods, map[*ssa.Function]bool{cf: true}, 1) {
					all = true
				}
			}
			s.scanReal, s.scanRoots, s.scanBlocks = savedReal, savedRoots, savedBlocks
			if all {
				s.havocAll(st)
				continue
			}
			names := make([]string, 0, len(mods))
			for n := range mods {
				names = append(names, n)
			}
			sort.Strings(names)
			for _, n := range names {
				sortN := mods[n]
				if sortN == "?" {
					continue
				}
				s.havocHeap(st, n, sortN)
			}
			nt := s.fresh("top", SInt)
			s.assume(Ge(nt, st.Top))
			st.Top = nt
		}
	}
	// ghost events inside the callee: the clock and the per-event positions only move forward
	if fn != nil && s.eng.mayEvent(fn, map[*ssa.Function]bool{}) {
		clk0 := s.ghostGet(st, "evclock")
		last0 := s.ghostGet(st, "evlast")
		s.havocHeap(st, "X:evclock", arrSort(SInt))
		s.havocHeap(st, "X:evlast", arrSort(SInt))
		s.havocHeap(st, "X:evres", arrSort(SInt))
		cnt0 := s.ghostGet(st, "evcount")
		s.havocHeap(st, "X:evcount", arrSort(SInt))
		cnt1 := s.ghostGet(st, "evcount")
		clk1 := s.ghostGet(st, "evclock")
		last1 := s.ghostGet(st, "evlast")
		s.assume(Ge(Select(clk1, I(0)), Select(clk0, I(0))))
		s.nfresh++
		k := fmt.Sprintf("ek!%d", s.nfresh)
		s.assume(T{fmt.Sprintf("(forall ((%s Int)) (! (and (>= (select %s %s) (select %s %s)) (<= (select %s %s) (select %s 0))) :pattern ((select %s %s))))", k, last1.S, k, last0.S, k, last1.S, k, clk1.S, last1.S, k), SBool})
		// event kinds the callee cannot raise keep their position
		{
			s.nfresh++
			k4 := fmt.Sprintf("ek!%d", s.nfresh)
			excl := ""
			for n := range s.eng.eventNames(fn, map[*ssa.Function]bool{}) {
				excl += fmt.Sprintf(" (not (= %s %s))", k4, s.strLit(n).S)
			}
			s.assume(T{fmt.Sprintf("(forall ((%s Int)) (! (=> (and true%s) (= (select %s %s) (select %s %s))) :pattern ((select %s %s))))", k4, excl, last1.S, k4, last0.S, k4, last1.S, k4), SBool})
		}
		s.nfresh++
		k3 := fmt.Sprintf("ek!%d", s.nfresh)
		s.assume(T{fmt.Sprintf("(forall ((%s Int)) (! (and (>= (select %s %s) (select %s %s)) (=> (= (select %s %s) (select %s %s)) (= (select %s %s) (select %s %s)))) :pattern ((select %s %s))))", k3, cnt1.S, k3, cnt0.S, k3, last1.S, k3, last0.S, k3, cnt1.S, k3, cnt0.S, k3, cnt1.S, k3), SBool})
		// an event kind that did not occur inside the callee keeps its recorded result
		res0 := old.Heap["X:evres"]
		if res0.S == "" {
			res0 = s.ghostGet(old, "evres")
		}
		res1 := s.ghostGet(st, "evres")
		s.nfresh++
		k2 := fmt.Sprintf("ek!%d", s.nfresh)
		s.assume(T{fmt.Sprintf("(forall ((%s Int)) (! (=> (= (select %s %s) (select %s %s)) (= (select %s %s) (select %s %s))) :pattern ((select %s %s))))", k2, last1.S, k2, last0.S, k2, res1.S, k2, res0.S, k2, res1.S, k2), SBool})
	}
	res := sig.Results()
	vals := make([]Val, res.Len())
	if !(c.ModGiven && len(c.Modifies) == 0 && res.Len() > 0 && noRefs(res)) {
		// the callee may allocate: the allocation frontier moves
		nt := s.fresh("top", SInt)
		s.assume(Ge(nt, st.Top))
		st.Top = nt
	}
	for i := 0; i < res.Len(); i++ {
		vals[i] = s.opaqueVal(res.At(i).Type(), "r_"+sanitizeName(short))
		s.assume(Imp(st.Reach, And(s.rangeFacts(vals[i]), s.refFacts(st, vals[i]))))
	}
	bindResults(env, sig, vals)
	if ev := c.Options["event"]; ev != "" {
		// ghost event clock: this call is event `ev`
		clk := s.ghostGet(st, "evclock")
		now := Add(Select(clk, I(0)), I(1))
		s.ghostSet(st, "evclock", Store(clk, I(0), now))
		s.ghostSet(st, "evlast", Store(s.ghostGet(st, "evlast"), s.strLit(ev), now))
		cnt := s.ghostGet(st, "evcount")
		s.ghostSet(st, "evcount", Store(cnt, s.strLit(ev), Add(Select(cnt, s.strLit(ev)), I(1))))
		if len(vals) == 1 && len(vals[0].L) == 1 && vals[0].L[0].Sort == SBool {
			s.ghostSet(st, "evres", Store(s.ghostGet(st, "evres"), s.strLit(ev), Ite(vals[0].L[0], I(1), I(0))))
		} else if len(vals) == 1 && len(vals[0].L) == 1 && vals[0].L[0].Sort == SInt {
			s.ghostSet(st, "evres", Store(s.ghostGet(st, "evres"), s.strLit(ev), vals[0].L[0]))
		}
	}
	se2 := &SpecEnv{sess: s, pkg: pkgT, vars: env, st: st, old: old}
	savedOrigin := s.curOrigin
	s.curOrigin = fmt.Sprintf("post:%s#%d", calleeShort(short), ord)
	for _, en := range c.Ensures {
		if en.Mode != "" && en.Mode != mode {
			continue
		}
		if strings.Contains(en.Src, "callres(") {
			// a postcondition about the callee's own inner calls says nothing a caller can use: not assumed
			continue
		}
		f := s.evalBool(se2, en.E)
		s.assume(Imp(st.Reach, f))
	}
	s.curOrigin = savedOrigin
	return packResults(res, vals)
}

// foldPathJoin: path.Join applied to string literals only is the literal the real function returns.
func (s *Session) foldPathJoin(in []T) (T, bool) {
	var parts []string
	for _, a := range in {
		if a.Sort != SInt {
			return T{}, false
		}
		n, err := strconv.Atoi(a.S)
		if err != nil || n < 0 || n >= len(s.strList) {
			return T{}, false
		}
		parts = append(parts, s.strList[n])
	}
	if len(parts) == 0 {
		return T{}, false
	}
	return s.strLit(path.Join(parts...)), true
}

// calleeShort: "(*T).M" -> "M", "F" -> "F"
func calleeShort(key string) string {
	if i := strings.LastIndex(key, ")."); i >= 0 {
		return key[i+2:]
	}
	return key
}

func sanitizeName(s string) string {
	r := strings.NewReplacer("(", "", ")", "", "*", "", ".", "_", "/", "_", "$", "_")
	return r.Replace(s)
}

// havocItems forgets the locations named by modifies items.
func (s *Session) havocItems(se *SpecEnv, items []string, st *State) {
	for _, it := range items {
		if it == "*" {
			s.havocAll(st)
			continue
		}
		locs, err := s.itemLocs(se, it)
		if err != nil {
			panic(fmt.Sprintf("modifies item %q: %v", it, err))
		}
		for _, ml := range locs {
			h := s.heapGet(st, ml.heap, ml.sort)
			if ml.whole {
				st.Heap[ml.heap] = s.fresh("hv:"+ml.heap, ml.sort)
				continue
			}
			elemSort := arrElem(ml.sort)
			nv := s.fresh("mod", elemSort)
			if len(ml.idx) > 0 {
				// single element of nested array
				st.Heap[ml.heap] = s.define("H", nestedStore(h, append([]T{ml.ref}, ml.idx...), s.fresh("mod", nestElem(ml.sort, 1+len(ml.idx)))))
			} else {
				st.Heap[ml.heap] = s.define("H", Store(h, ml.ref, nv))
			}
		}
	}
}

func nestElem(sort string, n int) string {
	for i := 0; i < n; i++ {
		sort = arrElem(sort)
	}
	return sort
}

type modLoc struct {
	heap  string
	sort  string
	ref   T
	idx   []T
	whole bool // the whole heap family (every object)
}

// itemLocs resolves a modifies item (x.f, x.f.g, x.s[*], x.*, T::f) to heap locations.
func (s *Session) itemLocs(se *SpecEnv, item string) ([]modLoc, error) {
	item = strings.TrimSpace(item)
	allElems := false
	if strings.HasSuffix(item, "[*]") {
		allElems = true
		item = strings.TrimSuffix(item, "[*]")
	}
	allFields := false
	if strings.HasSuffix(item, ".*") {
		allFields = true
		item = strings.TrimSuffix(item, ".*")
	}
	if strings.HasPrefix(item, "ghost ") && strings.HasSuffix(item, "]") && strings.Contains(item, "[") {
		// ghost NAME[EXPR]: one row of a 2-D ghost map
		body := strings.TrimSpace(strings.TrimPrefix(item, "ghost "))
		k := strings.Index(body, "[")
		name := strings.TrimSpace(body[:k])
		vs, ok := s.eng.db.Ghosts[name]
		if !ok {
			return nil, fmt.Errorf("unknown ghost map %s", name)
		}
		e, err := parseSpec(body[k+1 : len(body)-1])
		if err != nil {
			return nil, err
		}
		ref := s.materialize(s.evalSpec(se, e)).L[0]
		se.st.Sorts["X:"+name] = ghostSort(vs)
		return []modLoc{{heap: "X:" + name, sort: ghostSort(vs), ref: ref}}, nil
	}
	if strings.HasPrefix(item, "ghost ") {
		name := strings.TrimSpace(strings.TrimPrefix(item, "ghost "))
		vs, ok := s.eng.db.Ghosts[name]
		if !ok {
			if vs, ok = etcdGhosts[name]; !ok {
				return nil, fmt.Errorf("unknown ghost map %s", name)
			}
		}
		se.st.Sorts["X:"+name] = ghostSort(vs)
		return []modLoc{{heap: "X:" + name, sort: ghostSort(vs), whole: true}}, nil
	}
	if strings.HasPrefix(item, "all ") {
		// all T.field : the field of every object of struct type T
		tf := strings.TrimSpace(strings.TrimPrefix(item, "all "))
		if allFields {
			// all T.* : every field of every object of struct type T
			tt := s.resolveType(se.pkg, tf)
			var out []modLoc
			for _, l := range shape(tt) {
				name := heapName("F", typeKey(tt), l.Path)
				se.st.Sorts[name] = arrSort(l.Sort)
				out = append(out, modLoc{heap: name, sort: arrSort(l.Sort), whole: true})
			}
			return out, nil
		}
		if strings.HasPrefix(tf, "map[") {
			// all map[K]V : the contents of every map of that type
			mt, ok := s.resolveMapType(se.pkg, tf)
			if !ok {
				return nil, fmt.Errorf("bad map type %q", tf)
			}
			domN, cardN, valN, valS, _ := s.mapHeaps(se.st, mt)
			out := []modLoc{{heap: domN, sort: arrSort(arrSort(SBool)), whole: true}, {heap: cardN, sort: arrSort(SInt), whole: true}, {heap: mapVerName(mt), sort: arrSort(SInt), whole: true}}
			for i := range valN {
				out = append(out, modLoc{heap: valN[i], sort: valS[i], whole: true})
			}
			return out, nil
		}
		i := strings.LastIndex(tf, ".")
		if i < 0 {
			return nil, fmt.Errorf("bad item %q", item)
		}
		tt := s.resolveType(se.pkg, tf[:i])
		var out []modLoc
		for _, l := range shape(tt) {
			if l.Path == "."+tf[i+1:] || strings.HasPrefix(l.Path, "."+tf[i+1:]+".") || strings.HasPrefix(l.Path, "."+tf[i+1:]+"#") || strings.HasPrefix(l.Path, "."+tf[i+1:]+"[") {
				name := heapName("F", typeKey(tt), l.Path)
				se.st.Sorts[name] = arrSort(l.Sort)
				out = append(out, modLoc{heap: name, sort: arrSort(l.Sort), whole: true})
			}
		}
		return out, nil
	}
	if strings.HasPrefix(item, "heap ") {
		// raw heap family: heap F:pkg.T:.field
		name := strings.TrimSpace(strings.TrimPrefix(item, "heap "))
		sort, ok := se.st.Sorts[name]
		if !ok {
			if strings.HasPrefix(name, "A:int") || strings.HasPrefix(name, "A:uint") {
				// backing arrays of integer slices: the family may be touched only later (inside the loop / callee)
				sort = arrSort(arrSort(SInt))
				se.st.Sorts[name] = sort
			} else {
				return nil, nil // never touched: nothing to forget
			}
		}
		return []modLoc{{heap: name, sort: sort, whole: true}}, nil
	}
	e, err := parseSpec(item)
	if err != nil {
		return nil, err
	}
	var out []modLoc
	if allFields {
		v := s.evalSpec(se, e)
		loc := s.toLoc(v)
		names, sorts, _ := locHeaps(loc)
		for i := range names {
			out = append(out, modLoc{heap: names[i], sort: sorts[i], ref: loc.Ref, idx: loc.Idx})
		}
		return out, nil
	}
	if allElems {
		// a slice-typed value that is not a field (a parameter, a local): all elements of its backing array
		if v, ok := func() (v Val, ok bool) {
			defer func() {
				if recover() != nil {
					ok = false
				}
			}()
			return s.evalSpec(se, e), true
		}(); ok && v.Loc == nil && len(v.L) == 1 && v.Typ != nil {
			if mt, isMap := v.Typ.Underlying().(*types.Map); isMap {
				domN, cardN, valN, valS, _ := s.mapHeaps(se.st, mt)
				out = append(out, modLoc{heap: domN, sort: arrSort(arrSort(SBool)), ref: v.L[0]}, modLoc{heap: cardN, sort: arrSort(SInt), ref: v.L[0]}, modLoc{heap: mapVerName(mt), sort: arrSort(SInt), ref: v.L[0]})
				for i := range valN {
					out = append(out, modLoc{heap: valN[i], sort: valS[i], ref: v.L[0]})
				}
				return out, nil
			}
		} else if ok && v.Loc == nil && len(v.L) == 3 && v.Typ != nil {
			if ut, isSl := v.Typ.Underlying().(*types.Slice); isSl {
				eloc := &Loc{Kind: "A", TypeKey: typeKey(ut.Elem()), Ref: v.L[0], Typ: ut.Elem()}
				names, sorts, _ := locHeaps(eloc)
				for i := range names {
					out = append(out, modLoc{heap: names[i], sort: sorts[i], ref: v.L[0]})
				}
				return out, nil
			}
		}
	}
	loc, err := s.evalAddr(se, e)
	if err != nil {
		return nil, err
	}
	if allElems {
		// loc addresses a slice (or map) valued field: all elements of its backing array / the map contents
		v := s.load(se.st, loc)
		switch ut := loc.Typ.Underlying().(type) {
		case *types.Slice:
			eloc := &Loc{Kind: "A", TypeKey: typeKey(ut.Elem()), Ref: v.L[0], Typ: ut.Elem()}
			names, sorts, _ := locHeaps(eloc)
			for i := range names {
				out = append(out, modLoc{heap: names[i], sort: sorts[i], ref: v.L[0]})
			}
		case *types.Map:
			domN, cardN, valN, valS, _ := s.mapHeaps(se.st, ut)
			out = append(out, modLoc{heap: domN, sort: arrSort(arrSort(SBool)), ref: v.L[0]}, modLoc{heap: cardN, sort: arrSort(SInt), ref: v.L[0]}, modLoc{heap: mapVerName(ut), sort: arrSort(SInt), ref: v.L[0]})
			for i := range valN {
				out = append(out, modLoc{heap: valN[i], sort: valS[i], ref: v.L[0]})
			}
		case *types.Array:
			names, sorts, _ := locHeaps(loc)
			for i := range names {
				out = append(out, modLoc{heap: names[i], sort: sorts[i], ref: loc.Ref, idx: loc.Idx})
			}
		default:
			return nil, fmt.Errorf("[*] on non-slice/map %v", loc.Typ)
		}
		return out, nil
	}
	names, sorts, _ := locHeaps(loc)
	for i := range names {
		out = append(out, modLoc{heap: names[i], sort: sorts[i], ref: loc.Ref, idx: loc.Idx})
	}
	return out, nil
}

// ---- static effect scan (for loop havoc) ----

func (s *Session) modScan(fr *Frame, blocks map[*ssa.BasicBlock]bool) (map[string]string, bool) {
	mods := map[string]string{}
	s.scanReal = map[string]bool{}
	s.scanRoots = map[string][]T{}
	s.scanEvents = map[string]bool{}
	s.scanBlocks = blocks
	visited := map[*ssa.Function]bool{}
	all := false
	var bl []*ssa.BasicBlock
	for b := range blocks {
		bl = append(bl, b)
	}
	sort.Slice(bl, func(i, j int) bool { return bl[i].Index < bl[j].Index })
	for _, b := range bl {
		if s.scanInstrs(fr, b.Instrs, mods, visited, 0) {
			all = true
		}
	}
	return mods, all
}

func addLeaves(mods map[string]string, kind, tkey, path string, t types.Type, nidx int) {
	for _, l := range shape(t) {
		mods[heapName(kind, tkey, path+l.Path)] = nestSort(l.Sort, 1+nidx)
	}
}

// staticLoc computes heap family/path of an address expression from types alone.
func staticLoc(addr ssa.Value) (kind, tkey, path string, nidx int, ok bool) {
	switch a := addr.(type) {
	case *ssa.FieldAddr:
		pt := a.X.Type().Underlying().(*types.Pointer)
		stt := pt.Elem().Underlying().(*types.Struct)
		f := stt.Field(a.Field)
		if k, tk, p, n, ok2 := staticLoc(a.X); ok2 && (k != "F" || p != "" || true) {
			// nested: base itself is an interior address
			if _, isFA := a.X.(*ssa.FieldAddr); isFA {
				return k, tk, p + "." + f.Name(), n, true
			}
			if _, isIA := a.X.(*ssa.IndexAddr); isIA {
				return k, tk, p + "." + f.Name(), n, true
			}
			if _, isG := a.X.(*ssa.Global); isG {
				return k, tk, p + "." + f.Name(), n, true
			}
		}
		return "F", typeKey(pt.Elem()), "." + f.Name(), 0, true
	case *ssa.IndexAddr:
		switch bt := a.X.Type().Underlying().(type) {
		case *types.Slice:
			return "A", typeKey(bt.Elem()), "", 1, true
		case *types.Pointer:
			k, tk, p, n, ok2 := staticLoc(a.X)
			if !ok2 {
				return "", "", "", 0, false
			}
			return k, tk, p + "[]", n + 1, true
		}
	case *ssa.Global:
		return "G", a.Pkg.Pkg.Path() + "." + a.Name(), "", 0, true
	}
	if pt, isP := addr.Type().Underlying().(*types.Pointer); isP {
		if _, isStruct := pt.Elem().Underlying().(*types.Struct); isStruct {
			return "F", typeKey(pt.Elem()), "", 0, true
		}
		return "P", typeKey(pt.Elem()), "", 0, true
	}
	return "", "", "", 0, false
}

func (s *Session) scanInstrs(fr *Frame, instrs []ssa.Instruction, mods map[string]string, visited map[*ssa.Function]bool, depth int) bool {
	all := false
	for _, in := range instrs {
		switch x := in.(type) {
		case *ssa.Store:
			k, tk, p, n, ok := staticLoc(x.Addr)
			if !ok {
				all = true
				continue
			}
			before := len(mods)
			_ = before
			tmp := map[string]string{}
			addLeaves(tmp, k, tk, p, x.Val.Type(), n)
			fresh := s.rootIsFreshAlloc(x.Addr, depth)
			var rootRef *T
			if !fresh && depth == 0 && fr != nil {
				rootRef = s.loopInvariantRoot(fr, x.Addr)
			}
			for name, sort := range tmp {
				mods[name] = sort
				if rootRef != nil {
					s.scanRoots[name] = append(s.scanRoots[name], *rootRef)
				} else if !fresh {
					s.scanReal[name] = true
				}
			}
		case *ssa.Alloc:
			t := x.Type().(*types.Pointer).Elem()
			k := "P"
			if _, isStruct := t.Underlying().(*types.Struct); isStruct {
				k = "F"
			}
			addLeaves(mods, k, typeKey(t), "", t, 0)
		case *ssa.MakeSlice:
			et := x.Type().Underlying().(*types.Slice).Elem()
			addLeaves(mods, "A", typeKey(et), "", et, 1)
		case *ssa.MakeMap:
			s.addMapHeaps(mods, x.Type().Underlying().(*types.Map))
		case *ssa.MapUpdate:
			s.addMapHeaps(mods, x.Map.Type().Underlying().(*types.Map))
			if mm, isMk := x.Map.(*ssa.MakeMap); isMk && (depth > 0 || s.scanBlocks[mm.Block()]) {
				// map created inside the scanned region: initialisation of a fresh object
			} else if depth == 0 && fr != nil && definedOutside(x.Map, s.scanBlocks) {
				mm := x.Map
				if v, ok := fr.vals[mm]; ok && len(v.L) == 1 {
					tmp := map[string]string{}
					s.addMapHeaps(tmp, x.Map.Type().Underlying().(*types.Map))
					for name := range tmp {
						s.scanRoots[name] = append(s.scanRoots[name], v.L[0])
					}
				} else {
					s.markMapReal(x.Map.Type().Underlying().(*types.Map))
				}
			} else {
				s.markMapReal(x.Map.Type().Underlying().(*types.Map))
			}
		case *ssa.MakeInterface:
			ls := shape(x.X.Type())
			if !(len(ls) == 1 && (ls[0].Sort == SInt || ls[0].Sort == SBool)) {
				t := x.X.Type()
				k := "P"
				if _, isStruct := t.Underlying().(*types.Struct); isStruct {
					k = "F"
				}
				addLeaves(mods, k, typeKey(t), "", t, 0)
			}
		case *ssa.Convert:
			if sl, ok := x.Type().Underlying().(*types.Slice); ok {
				addLeaves(mods, "A", typeKey(sl.Elem()), "", sl.Elem(), 1)
			}
		case *ssa.Slice:
			if pt, ok := x.X.Type().Underlying().(*types.Pointer); ok {
				at := pt.Elem().Underlying().(*types.Array)
				addLeaves(mods, "A", typeKey(at.Elem()), "", at.Elem(), 1)
			}
		case *ssa.Call:
			if s.scanCall(fr, &x.Call, mods, visited, depth) {
				all = true
			}
		case *ssa.Defer:
			if s.scanCall(fr, &x.Call, mods, visited, depth) {
				all = true
			}
		}
	}
	return all
}

func (s *Session) addMapHeaps(mods map[string]string, mt *types.Map) {
	mk := types.TypeString(mt, nil)
	mods[heapName("M", mk, "dom")] = arrSort(arrSort(SBool))
	mods[heapName("M", mk, "card")] = arrSort(SInt)
	mods[heapName("M", mk, "ver")] = arrSort(SInt)
	for _, l := range shape(mt.Elem()) {
		mods[heapName("M", mk, "val"+l.Path)] = arrSort(arrSort(l.Sort))
	}
}

func (s *Session) scanCall(fr *Frame, cc *ssa.CallCommon, mods map[string]string, visited map[*ssa.Function]bool, depth int) bool {
	if cc.IsInvoke() {
		m := cc.Method
		if _, ok := invokeModels[m.FullName()]; ok {
			if eff, ok2 := invokeEffects[m.FullName()]; ok2 {
				for k, v := range eff {
					mods[k] = v
				}
				return false
			}
			return true
		}
		if named, ok := cc.Value.Type().(*types.Named); ok && named.Obj().Pkg() != nil {
			key := named.Obj().Pkg().Path() + "::(" + named.Obj().Name() + ")." + m.Name()
			if c := s.eng.db.Contracts[key]; c != nil {
				tmp := map[string]string{}
				r := s.scanContractMods(c, nil, cc.Signature(), tmp)
				for name, sort := range tmp {
					mods[name] = sort
					s.scanReal[name] = true
				}
				return r
			}
		}
		if m.Pkg() != nil && (hasPrefixAny(m.Pkg().Path(), noEffectPkgs) || m.Pkg().Path() == etcdPkg || m.Pkg().Path() == "context" || strings.HasPrefix(m.Pkg().Path(), "github.com/pingcap/kvproto")) {
			return false
		}
		if m.FullName() == "(error).Error" {
			return false
		}
		return true
	}
	var fn *ssa.Function
	switch callee := cc.Value.(type) {
	case *ssa.Builtin:
		if callee.Name() == "append" {
			et := cc.Args[0].Type().Underlying().(*types.Slice).Elem()
			addLeaves(mods, "A", typeKey(et), "", et, 1)
		}
		if callee.Name() == "copy" {
			if sl, ok := cc.Args[0].Type().Underlying().(*types.Slice); ok {
				tmp := map[string]string{}
				addLeaves(tmp, "A", typeKey(sl.Elem()), "", sl.Elem(), 1)
				for name, sort := range tmp {
					mods[name] = sort
					s.scanReal[name] = true
				}
			}
		}
		if callee.Name() == "delete" {
			s.addMapHeaps(mods, cc.Args[0].Type().Underlying().(*types.Map))
			s.markMapReal(cc.Args[0].Type().Underlying().(*types.Map))
		}
		return false
	case *ssa.Function:
		fn = callee
	case *ssa.MakeClosure:
		fn = callee.Fn.(*ssa.Function)
	default:
		if nt, ok := cc.Value.Type().(*types.Named); ok && nt.Obj().Pkg() != nil && (hasPrefixAny(nt.Obj().Pkg().Path(), purePkgs) || hasPrefixAny(nt.Obj().Pkg().Path(), noEffectPkgs)) {
			return false
		}
		if fr != nil {
			if v, ok := fr.vals[cc.Value]; ok {
				if v.Clo != nil {
					fn = v.Clo.Fn
				} else if v.Fn != nil {
					fn = v.Fn
				}
			}
		}
		if fn == nil {
			if cc.Signature().Params().Len() == 0 && noRefs(cc.Signature().Results()) {
				return false
			}
			if s.topContract != nil && s.topContract.Options["pureparams"] != "" {
				return false
			}
			return true
		}
	}
	name := fn.String()
	if eff, ok := builtinEffects[name]; ok {
		for k, v := range eff {
			mods[k] = v
			s.scanReal[k] = true
		}
		return false
	}
	if strings.HasPrefix(name, "sync/atomic.Store") || strings.HasPrefix(name, "sync/atomic.Add") || strings.HasPrefix(name, "sync/atomic.CompareAndSwap") || strings.HasPrefix(name, "sync/atomic.Swap") || name == "(*sync/atomic.Value).Store" {
		k, tk, p, n, ok := staticLoc(cc.Args[0])
		if !ok {
			return true
		}
		tmp := map[string]string{}
		if name == "(*sync/atomic.Value).Store" {
			tmp[heapName(k, tk, p+".v")] = nestSort(SInt, 1+n)
		} else {
			addLeaves(tmp, k, tk, p, cc.Args[0].Type().Underlying().(*types.Pointer).Elem(), n)
		}
		for nm, sort := range tmp {
			mods[nm] = sort
			s.scanReal[nm] = true
		}
		return false
	}
	if _, ok := builtinModels[name]; ok {
		return false
	}
	if c := s.contractFor(fn); c != nil {
		tmp := map[string]string{}
		r := s.scanContractMods(c, fn, fn.Signature, tmp)
		for name, sort := range tmp {
			mods[name] = sort
			s.scanReal[name] = true
		}
		return r
	}
	pkg := fnPkgPath(fn)
	if hasPrefixAny(pkg, noEffectPkgs) || nondetFns[name] {
		return false
	}
	pk, key := s.funcKey(fn)
	opaque := s.eng.db.Opaque[pk+"::"+key]
	if s.eng.db.Havoc[pk+"::"+key] {
		return true
	}
	if len(fn.Blocks) > 0 && !opaque && (strings.HasPrefix(pkg, s.eng.modulePath) || s.eng.db.Transp[pk+"::"+key]) {
		if visited[fn] {
			return false
		}
		if depth > maxInlineDepth {
			return true
		}
		visited[fn] = true
		all := false
		for _, b := range fn.Blocks {
			if s.scanInstrs(nil, b.Instrs, mods, visited, depth+1) {
				all = true
			}
		}
		return all
	}
	if hasPrefixAny(pkg, purePkgs) || opaque || strings.HasPrefix(pkg, "github.com/pingcap/kvproto") {
		return false
	}
	return true
}

func init() {
	// sync/atomic on plain integers
	for _, ty := range []string{"Int32", "Int64", "Uint32", "Uint64", "Pointer", "Uintptr"} {
		ty := ty
		builtinModels["sync/atomic.Load"+ty] = func(s *Session, fr *Frame, fn *ssa.Function, args []Val, st *State) Val {
			v := s.load(st, s.toLoc(args[0]))
			s.assume(Imp(st.Reach, s.rangeFacts(v)))
			return v
		}
		builtinModels["sync/atomic.Store"+ty] = func(s *Session, fr *Frame, fn *ssa.Function, args []Val, st *State) Val {
			s.store(st, s.toLoc(args[0]), args[1])
			return Val{}
		}
		builtinModels["sync/atomic.Add"+ty] = func(s *Session, fr *Frame, fn *ssa.Function, args []Val, st *State) Val {
			loc := s.toLoc(args[0])
			v := s.load(st, loc)
			t := fn.Signature.Results().At(0).Type()
			nv := scalar(t, s.define("aadd", s.wrap(Add(v.T0(), args[1].T0()), t)))
			s.store(st, loc, nv)
			return nv
		}
		builtinModels["sync/atomic.CompareAndSwap"+ty] = func(s *Session, fr *Frame, fn *ssa.Function, args []Val, st *State) Val {
			loc := s.toLoc(args[0])
			v := s.load(st, loc)
			ok := s.define("cas", Eq(v.T0(), args[1].T0()))
			s.store(st, loc, scalar(v.Typ, Ite(ok, args[2].T0(), v.T0())))
			return scalar(types.Typ[types.Bool], ok)
		}
	}
}

// scanContractMods adds the heap families named by a contract's modifies clause (type-level resolution).
func (s *Session) scanContractMods(c *Contract, fn *ssa.Function, sig *types.Signature, mods map[string]string) bool {
	names := sigParamNames(fn, sig, c)
	ptypes := map[string]types.Type{}
	k := 0
	if len(names) > sig.Params().Len() {
		if sig.Recv() != nil {
			ptypes[names[0]] = sig.Recv().Type()
		} else if fn != nil && len(fn.Params) > 0 {
			ptypes[names[0]] = fn.Params[0].Type()
		}
		k = 1
	}
	for i := 0; i < sig.Params().Len(); i++ {
		ptypes[names[k+i]] = sig.Params().At(i).Type()
	}
	if fn != nil {
		// a closure's contract may name the variables it captures
		for _, fv := range fn.FreeVars {
			if pt, isP := fv.Type().Underlying().(*types.Pointer); isP {
				if _, dup := ptypes[fv.Name()]; !dup {
					ptypes[fv.Name()] = pt.Elem()
				}
			}
		}
	}
	if c.Options["event"] != "" {
		for _, n := range []string{"evclock", "evlast", "evres", "evcount"} {
			mods["X:"+n] = arrSort(SInt)
		}
		if s.scanEvents != nil {
			s.scanEvents[c.Options["event"]] = true
		}
	}
	if fn != nil && s.scanEvents != nil && s.eng.mayEvent(fn, map[*ssa.Function]bool{}) {
		for _, n := range []string{"evclock", "evlast", "evres", "evcount"} {
			mods["X:"+n] = arrSort(SInt)
		}
		for n := range s.eng.eventNames(fn, map[*ssa.Function]bool{}) {
			s.scanEvents[n] = true
		}
	}
	for _, it := range c.Modifies {
		if it == "*" {
			return true
		}
		if strings.HasPrefix(it, "heap ") {
			name := strings.TrimSpace(strings.TrimPrefix(it, "heap "))
			mods[name] = "?"
			continue
		}
		if strings.HasPrefix(it, "ghost ") {
			name := strings.TrimSpace(strings.TrimPrefix(it, "ghost "))
			if k := strings.Index(name, "["); k >= 0 {
				name = name[:k] // one row of a 2-D ghost: the whole ghost counts as touched here
			}
			vs, ok := s.eng.db.Ghosts[name]
			if !ok {
				vs = etcdGhosts[name]
			}
			mods["X:"+name] = ghostSort(vs)
			continue
		}
		if strings.HasPrefix(it, "all ") {
			tf := strings.TrimSpace(strings.TrimPrefix(it, "all "))
			if strings.HasSuffix(tf, ".*") {
				okAll := false
				func() {
					defer func() { recover() }()
					tt := s.resolveType(s.eng.typesPkg(c.Pkg), strings.TrimSuffix(tf, ".*"))
					for _, l := range shape(tt) {
						mods[heapName("F", typeKey(tt), l.Path)] = arrSort(l.Sort)
					}
					okAll = true
				}()
				if !okAll {
					return true
				}
				continue
			}
			if strings.HasPrefix(tf, "map[") {
				mt, okm := s.resolveMapType(s.eng.typesPkg(c.Pkg), tf)
				if !okm {
					return true
				}
				st0 := &State{Heap: map[string]T{}, Sorts: map[string]string{}}
				domN, cardN, valN, valS, _ := s.mapHeaps(st0, mt)
				mods[domN] = arrSort(arrSort(SBool))
				mods[cardN] = arrSort(SInt)
				mods[mapVerName(mt)] = arrSort(SInt)
				for k := range valN {
					mods[valN[k]] = valS[k]
				}
				continue
			}
			i := strings.LastIndex(tf, ".")
			func() {
				defer func() { recover() }()
				tt := s.resolveType(s.eng.typesPkg(c.Pkg), tf[:i])
				for _, l := range shape(tt) {
					if l.Path == "."+tf[i+1:] || strings.HasPrefix(l.Path, "."+tf[i+1:]+".") || strings.HasPrefix(l.Path, "."+tf[i+1:]+"#") || strings.HasPrefix(l.Path, "."+tf[i+1:]+"[") {
						mods[heapName("F", typeKey(tt), l.Path)] = arrSort(l.Sort)
					}
				}
			}()
			continue
		}
		item := it
		allElems := strings.HasSuffix(item, "[*]")
		item = strings.TrimSuffix(item, "[*]")
		allFields := strings.HasSuffix(item, ".*")
		item = strings.TrimSuffix(item, ".*")
		parts := strings.Split(item, ".")
		t, ok := ptypes[parts[0]]
		if !ok {
			return true
		}
		kind, tkey, path := "", "", ""
		bad := false
		for _, fname := range parts[1:] {
			if pt, isP := t.Underlying().(*types.Pointer); isP {
				t = pt.Elem()
				kind, tkey, path = "F", typeKey(t), ""
			}
			stt, isS := t.Underlying().(*types.Struct)
			if !isS {
				bad = true
				break
			}
			found := false
			for i := 0; i < stt.NumFields(); i++ {
				if stt.Field(i).Name() == fname {
					t = stt.Field(i).Type()
					path += "." + fname
					found = true
					break
				}
			}
			if !found {
				bad = true
				break
			}
		}
		if bad {
			return true
		}
		if allFields {
			if pt, isP := t.Underlying().(*types.Pointer); isP {
				t = pt.Elem()
				kind, tkey, path = "F", typeKey(t), ""
			}
			addLeaves(mods, kind, tkey, path, t, 0)
			continue
		}
		if allElems {
			switch ut := t.Underlying().(type) {
			case *types.Slice:
				addLeaves(mods, "A", typeKey(ut.Elem()), "", ut.Elem(), 1)
			case *types.Map:
				s.addMapHeaps(mods, ut)
			default:
				addLeaves(mods, kind, tkey, path, t, 0)
			}
			continue
		}
		if kind == "" {
			return true
		}
		addLeaves(mods, kind, tkey, path, t, 0)
	}
	return false
}

func (s *Session) markMapReal(mt *types.Map) {
	tmp := map[string]string{}
	s.addMapHeaps(tmp, mt)
	for name := range tmp {
		s.scanReal[name] = true
	}
}

// rootIsFreshAlloc: the address is rooted at an Alloc executed inside the scanned region
// (a loop body, or an inlined callee), i.e. the write initialises an object that did not exist before.
func (s *Session) rootIsFreshAlloc(addr ssa.Value, depth int) bool {
	for {
		switch a := addr.(type) {
		case *ssa.FieldAddr:
			addr = a.X
		case *ssa.IndexAddr:
			if _, isPtr := a.X.Type().Underlying().(*types.Pointer); isPtr {
				addr = a.X
			} else {
				return false
			}
		case *ssa.Alloc:
			if depth > 0 {
				return true
			}
			return s.scanBlocks[a.Block()]
		default:
			return false
		}
	}
}

func noRefs(res *types.Tuple) bool {
	for i := 0; i < res.Len(); i++ {
		for _, l := range shape(res.At(i).Type()) {
			if strings.HasSuffix(l.Path, "#ptr") {
				return false
			}
			switch l.Typ.Underlying().(type) {
			case *types.Pointer, *types.Map, *types.Interface, *types.Signature, *types.Chan:
				return false
			}
		}
	}
	return true
}

func calleeName(cc *ssa.CallCommon) string {
	if cc.IsInvoke() {
		return cc.Method.Name()
	}
	switch c := cc.Value.(type) {
	case *ssa.Function:
		return c.Name()
	case *ssa.Builtin:
		return c.Name()
	case *ssa.MakeClosure:
		return c.Fn.Name()
	case *ssa.Parameter:
		return c.Name() // call through a function-valued parameter
	}
	return ""
}

// callSiteAsserts: `at NAME K assert E` clauses, K = source-order ordinal of calls to NAME in this function.
func (s *Session) callSiteAsserts(fr *Frame, cc *ssa.CallCommon, st *State, instr *ssa.Call, after *Val) {
	name := calleeName(cc)
	if name == "" || instr == nil {
		return
	}
	s.ensureCallSites(fr)
	k := fr.callSites[instr]
	key := fmt.Sprintf("%s#%d", name, k)
	phase := "assert"
	if after != nil {
		key += "!after"
		phase = "after"
		// bind the call's results as r0, r1, ... / result
		saved := fr.env
		fr.env = map[string]Val{}
		for n, v := range saved {
			fr.env[n] = v
		}
		if after.Tup != nil {
			for i, v := range after.Tup {
				fr.env[fmt.Sprintf("r%d", i)] = v
			}
		} else if after.L != nil || after.Loc != nil {
			fr.env["r0"] = *after
			fr.env["result"] = *after
		}
		defer func() { fr.env = saved }()
	}
	clauses := fr.contract.Ats[key]
	if len(clauses) == 0 {
		return
	}
	{
		// bind the explicit call arguments as arg0, arg1, ...
		saved2 := fr.env
		env2 := map[string]Val{}
		for n, v := range saved2 {
			env2[n] = v
		}
		skip := 0
		if !cc.IsInvoke() && cc.Signature().Recv() != nil {
			skip = 1
		}
		for i := skip; i < len(cc.Args); i++ {
			env2[fmt.Sprintf("arg%d", i-skip)] = s.valueOf(fr, cc.Args[i])
		}
		if skip == 1 {
			env2["recv"] = s.valueOf(fr, cc.Args[0])
		} else if cc.IsInvoke() {
			env2["recv"] = s.valueOf(fr, cc.Value)
		}
		fr.env = env2
		defer func() { fr.env = saved2 }()
	}
	idx := -1
	for i, in := range instr.Block().Instrs {
		if in == ssa.Instruction(instr) {
			idx = i
		}
	}
	for i, cl := range clauses {
		if cl.Mode != "" && cl.Mode != s.runMode {
			continue
		}
		subs := splitClause(cl)
		for _, sub := range subs {
			oname := fmt.Sprintf("%s/%s@%s#%d.%s", fr.oblPfx, phase, name, k, clauseNameSplit(cl, i, sub, len(subs)))
			var f, g T
			// a clause that names the result of a call (callres) which has not run when this call is reached cannot
			// hold: the call it relies on comes later or not at all - a failed obligation, not an unreadable contract
			notYet := func() (ny bool) {
				defer func() {
					if r := recover(); r != nil {
						if e, ok := r.(specErr); ok && strings.Contains(e.msg, "no such call executed yet") {
							ny = true
							return
						}
						if e, ok := r.(string); ok && strings.Contains(e, "no such call executed yet") {
							ny = true
							return
						}
						panic(r)
					}
				}()
				f = s.evalBoolClauseAt(fr, sub, st, instr.Block(), idx)
				g = s.evalGoalClauseAt(fr, sub, st, instr.Block(), idx)
				return false
			}()
			if notYet {
				s.addObl(&Obligation{Name: oname, Kind: "assert", Func: fr.oblPfx, Src: "at call " + name + " (" + phase + "): " + sub.Src + "   [names the result of a call that has not run at this point]", Guard: st.Reach, Formula: TFalse, Using: cl.Using})
				continue
			}
			s.addObl(&Obligation{Name: oname, Kind: "assert", Func: fr.oblPfx, Src: "at call " + name + " (" + phase + "): " + sub.Src, Guard: st.Reach, Formula: g, Using: cl.Using})
			so := s.curOrigin
			s.curOrigin = fmt.Sprintf("at:%s#%d", name, k)
			s.assume(Imp(st.Reach, f))
			s.curOrigin = so
		}
	}
}

func rootAlloc(addr ssa.Value) *ssa.Alloc {
	for {
		switch a := addr.(type) {
		case *ssa.FieldAddr:
			addr = a.X
		case *ssa.IndexAddr:
			if _, isPtr := a.X.Type().Underlying().(*types.Pointer); isPtr {
				addr = a.X
			} else {
				return nil
			}
		case *ssa.Alloc:
			return a
		default:
			return nil
		}
	}
}

// interfere applies the contract's `interfere` clauses before a call (rely/guarantee reasoning for state that
// other requests may change between two of our own actions).
func (s *Session) interfere(fr *Frame, cc *ssa.CallCommon, st *State, instr *ssa.Call) {
	name := calleeName(cc)
	for _, itf := range fr.contract.Interf {
		hit := false
		for _, c := range itf.Callees {
			if c == name {
				hit = true
			}
		}
		if !hit {
			continue
		}
		if itf.Pred.Mode != "" && itf.Pred.Mode != s.runMode {
			continue // interference that belongs to one verification mode (e.g. the concurrent reading of the function)
		}
		if itf.Lock != "" {
			se := &SpecEnv{sess: s, pkg: fr.fn.Pkg.Pkg, vars: s.frameEnv(fr), st: st, old: fr.old, fr: fr}
			e, err := parseSpec(itf.Lock)
			if err == nil {
				if loc, err2 := s.evalAddr(se, e); err2 == nil {
					if st.Locks[loc.Kind+":"+loc.TypeKey+":"+loc.Path] {
						continue // exclusive section: no interference
					}
				}
			}
		}
		s.applyInterference(fr, itf, st, instr)
		s.note("%s: interference by concurrent requests assumed before each call of %s under the rely `%s`", fr.fn.String(), name, itf.Pred.Src)
	}
}

func (s *Session) applyInterference(fr *Frame, itf Interference, st *State, instr *ssa.Call) {
	before := st.clone()
	if len(itf.Havoc) == 0 {
		// no explicit list: the shared state is the ghost stores (kv / etcd / ...)
		for g := range s.eng.db.Ghosts {
			s.havocHeap(st, "X:"+g, ghostSort(s.eng.db.Ghosts[g]))
		}
	}
	se := &SpecEnv{sess: s, pkg: fr.fn.Pkg.Pkg, vars: s.frameEnv(fr), st: st, old: before, fr: fr}
	if instr != nil {
		idx := -1
		for i, in := range instr.Block().Instrs {
			if in == ssa.Instruction(instr) {
				idx = i
			}
		}
		se.lookup = s.localLookupAt(fr, st, instr.Block(), idx)
	}
	if len(itf.Havoc) > 0 {
		s.havocItems(se, itf.Havoc, st)
	}
	s.assume(Imp(st.Reach, s.evalBool(se, itf.Pred.E)))
}

// interfereAtLock: `interfere ... unless held L` protects the shared state only WHILE L is held; whatever this
// thread read before it acquired L may be stale by the time it holds L (other threads ran in between), so the same
// interference is applied at every acquisition of L.
func (s *Session) interfereAtLock(fr *Frame, lockID string, st *State, instr *ssa.Call) {
	if fr.contract == nil {
		return
	}
	for _, itf := range fr.contract.Interf {
		if itf.Lock == "" {
			continue
		}
		se := &SpecEnv{sess: s, pkg: fr.fn.Pkg.Pkg, vars: s.frameEnv(fr), st: st, old: fr.old, fr: fr}
		e, err := parseSpec(itf.Lock)
		if err != nil {
			continue
		}
		loc, err2 := s.evalAddr(se, e)
		if err2 != nil || loc.Kind+":"+loc.TypeKey+":"+loc.Path != lockID {
			continue
		}
		s.applyInterference(fr, itf, st, instr)
		s.note("%s: interference by concurrent requests assumed at the acquisition of %s under the rely `%s`", fr.fn.String(), itf.Lock, itf.Pred.Src)
	}
}

// mayEvent: can executing fn reach a call of a function whose contract declares a ghost event?
func (e *Engine) mayEvent(fn *ssa.Function, visiting map[*ssa.Function]bool) bool {
	if e.evMemo == nil {
		e.evMemo = map[*ssa.Function]bool{}
	}
	if v, ok := e.evMemo[fn]; ok {
		return v
	}
	if visiting[fn] {
		return false
	}
	visiting[fn] = true
	res := false
	check := func(cc *ssa.CallCommon) {
		if res {
			return
		}
		if cc.IsInvoke() {
			if named, ok := cc.Value.Type().(*types.Named); ok && named.Obj().Pkg() != nil {
				if c := e.db.Contracts[named.Obj().Pkg().Path()+"::("+named.Obj().Name()+")."+cc.Method.Name()]; c != nil && c.Options["event"] != "" {
					res = true
				}
			}
			return
		}
		var callee *ssa.Function
		switch v := cc.Value.(type) {
		case *ssa.Function:
			callee = v
		case *ssa.MakeClosure:
			callee = v.Fn.(*ssa.Function)
		}
		if callee == nil {
			return
		}
		if callee.String() == "time.Now" {
			return
		}
		pkg := fnPkgPath(callee)
		key := callee.String()
		if callee.Pkg != nil {
			key = callee.RelString(callee.Pkg.Pkg)
		}
		if c := e.db.Contracts[pkg+"::"+key]; c != nil && c.Options["event"] != "" {
			res = true
			return
		}
		if strings.HasPrefix(pkg, e.modulePath) && len(callee.Blocks) > 0 {
			if e.mayEvent(callee, visiting) {
				res = true
			}
		}
	}
	for _, b := range fn.Blocks {
		for _, in := range b.Instrs {
			switch x := in.(type) {
			case *ssa.Call:
				check(&x.Call)
			case *ssa.Defer:
				check(&x.Call)
			case *ssa.Go:
				check(&x.Call)
			}
		}
	}
	for _, af := range fn.AnonFuncs {
		if !res && e.mayEvent(af, visiting) {
			res = true
		}
	}
	e.evMemo[fn] = res
	return res
}

// definedOutside: the value is a parameter/constant/global or an instruction of a block outside the scanned region.
func definedOutside(v ssa.Value, blocks map[*ssa.BasicBlock]bool) bool {
	if in, ok := v.(ssa.Instruction); ok {
		return !blocks[in.Block()]
	}
	return true
}

// loopInvariantRoot: if the stored-to address is rooted at a whole-object pointer (or slice) whose value is
// fixed before the loop, return that object's reference so that only this object is forgotten at the loop head.
func (s *Session) loopInvariantRoot(fr *Frame, addr ssa.Value) *T {
	for {
		switch a := addr.(type) {
		case *ssa.FieldAddr:
			addr = a.X
			continue
		case *ssa.IndexAddr:
			if _, isPtr := a.X.Type().Underlying().(*types.Pointer); isPtr {
				addr = a.X
				continue
			}
			// slice element: the backing array of a slice value fixed before the loop
			if definedOutside(a.X, s.scanBlocks) {
				if v, ok := fr.vals[a.X]; ok && len(v.L) == 3 {
					r := v.L[0]
					return &r
				}
			}
			return nil
		}
		break
	}
	if !definedOutside(addr, s.scanBlocks) {
		return nil
	}
	v, ok := fr.vals[addr]
	if !ok {
		return nil
	}
	if v.Loc != nil {
		if v.Loc.Path == "" && len(v.Loc.Idx) == 0 {
			r := v.Loc.Ref
			return &r
		}
		return nil
	}
	if len(v.L) == 1 && isPointer(v.Typ) {
		r := v.L[0]
		return &r
	}
	return nil
}

// needsReachCheck: reachability (non-vacuity) is checked at call sites that carry proof obligations:
// calls of functions under contract and calls with `at` assertions.
func (s *Session) needsReachCheck(fr *Frame, cc *ssa.CallCommon, instr *ssa.Call) bool {
	if fr.contract != nil && len(fr.contract.Ats) > 0 {
		s.ensureCallSites(fr)
		k := fmt.Sprintf("%s#%d", calleeName(cc), fr.callSites[instr])
		if len(fr.contract.Ats[k]) > 0 || len(fr.contract.Ats[k+"!after"]) > 0 {
			return true
		}
	}
	var c *Contract
	if cc.IsInvoke() {
		if named, ok := cc.Value.Type().(*types.Named); ok && named.Obj().Pkg() != nil {
			c = s.eng.db.Contracts[named.Obj().Pkg().Path()+"::("+named.Obj().Name()+")."+cc.Method.Name()]
		}
	} else if fn, ok := cc.Value.(*ssa.Function); ok {
		c = s.contractFor(fn)
	}
	return c != nil && !c.Assumed && (len(c.Requires) > 0 || len(c.Ensures) > 0)
}

// eventNames: the ghost event names that executing fn may raise (through contracts with `option event`).
func (e *Engine) eventNames(fn *ssa.Function, visiting map[*ssa.Function]bool) map[string]bool {
	out := map[string]bool{}
	if visiting[fn] {
		return out
	}
	visiting[fn] = true
	add := func(cc *ssa.CallCommon) {
		if cc.IsInvoke() {
			if named, ok := cc.Value.Type().(*types.Named); ok && named.Obj().Pkg() != nil {
				if c := e.db.Contracts[named.Obj().Pkg().Path()+"::("+named.Obj().Name()+")."+cc.Method.Name()]; c != nil && c.Options["event"] != "" {
					out[c.Options["event"]] = true
				}
			}
			return
		}
		var callee *ssa.Function
		switch v := cc.Value.(type) {
		case *ssa.Function:
			callee = v
		case *ssa.MakeClosure:
			callee = v.Fn.(*ssa.Function)
		}
		if callee == nil {
			return
		}
		if callee.String() == "time.Now" {
			out["time.Now"] = true
			return
		}
		pkg := fnPkgPath(callee)
		key := callee.String()
		if callee.Pkg != nil {
			key = callee.RelString(callee.Pkg.Pkg)
		}
		if c := e.db.Contracts[pkg+"::"+key]; c != nil && c.Options["event"] != "" {
			out[c.Options["event"]] = true
		}
		if strings.HasPrefix(pkg, e.modulePath) && len(callee.Blocks) > 0 {
			for n := range e.eventNames(callee, visiting) {
				out[n] = true
			}
		}
	}
	for _, b := range fn.Blocks {
		for _, in := range b.Instrs {
			switch x := in.(type) {
			case *ssa.Call:
				add(&x.Call)
			case *ssa.Defer:
				add(&x.Call)
			}
		}
	}
	for _, af := range fn.AnonFuncs {
		for n := range e.eventNames(af, visiting) {
			out[n] = true
		}
	}
	return out
}

// resolveMapType parses "map[K]V" with K, V resolvable type names.
func (s *Session) resolveMapType(pkg *types.Package, name string) (*types.Map, bool) {
	if !strings.HasPrefix(name, "map[") {
		return nil, false
	}
	depth := 0
	for i := 3; i < len(name); i++ {
		switch name[i] {
		case '[':
			depth++
		case ']':
			depth--
			if depth == 0 {
				k := s.resolveType(pkg, name[4:i])
				v := s.resolveType(pkg, name[i+1:])
				if k == nil || v == nil {
					return nil, false
				}
				return types.NewMap(k, v), true
			}
		}
	}
	return nil, false
}


// writesThroughArgs: names of library functions in the purePkgs packages that store into an object or slice handed to them.
func writesThroughArgs(n string) bool {
	switch n {
	case "Unmarshal", "UnmarshalMerge", "UnmarshalText", "Merge", "Decode", "Read", "ReadFull", "Sscan", "Sscanf", "Sscanln",
		"Fscan", "Fscanf", "Fscanln", "PutUint16", "PutUint32", "PutUint64", "PutUvarint", "PutVarint", "DecodeString", "Copy":
		return true
	}
	return false
}
