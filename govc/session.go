package main

import (
	"fmt"
	"go/types"

	"golang.org/x/tools/go/ssa"
	"sort"
	"strings"
)

type Obligation struct {
	Name    string
	Kind    string
	Func    string
	Src     string // clause text
	Guard   T
	Formula T
	Pos     int // number of session assertions visible to this obligation
	Skip    [][2]int // assertion index ranges [from,to) hidden from this obligation (isolated loops)
	Using   []string // when set: of the quantified assumptions that carry an origin only those whose origin starts with one of these are shown
	Tag     int      // isolated loop body this obligation lives in (0 = none): quantified facts of other isolated bodies are hidden
	Result  SolveResult
	File    string
	Extra   map[string]string
	Inputs  []namedTerm // terms whose model values are wanted for replay
}

type namedTerm struct {
	Name string
	Term T
}

type Session struct {
	callBindings []Val // bindings of the closure whose contract is being applied (staticCall -> applyContract)
	mapRanges map[*Frame]map[*ssa.Range]*mapRangeInfo // ghost produced-key sets of map ranges (maprange.go)
	curOrigin     string   // where the assertions made now come from ("post:update#1", "inv#1", "requires", "at:update#1")
	assertOrigins []string // per assertion
	fnCells map[string]Val // function values stored in local cells (by cell reference)
	topFrame *Frame // frame of the function under proof
	runMode string // contract mode in which the function under proof is being verified
	topContract *Contract // contract of the function under proof
	curTag     int   // >0: assertions made now belong to the body of this isolated loop (header block index + 1)
	assertTags []int // per assertion: owning isolated loop body (0 = none)
	reqEnd  int        // number of assertions after the requires of the function under proof were assumed
	curSkip [][2]int   // hidden assertion ranges for obligations created now
	opaqueAtoms map[string]T
	opaqueDefs  []opaqueDef
	heapDefs map[string]heapDef
	eng      *Engine
	Name     string
	decls    []string
	declared map[string]bool
	asserts  []string
	obls     []*Obligation
	nfresh   int
	strLits  map[string]int
	strList  []string
	typeTags map[string]int
	notes    map[string]bool
	inlined  map[string]bool
	used     map[string]bool // contracts applied at call sites
	noDefine int             // >0 while evaluating under a quantifier
	oblNames map[string]int
	inputs   []namedTerm
	shiftKs  map[int]bool
	ifaceOrigin map[string]ifaceOrg
	unixTerms map[string]bool
	suppressObl bool
	scanReal map[string]bool
	scanEvents map[string]bool
	litCells map[string]map[int]Val
	litSlices map[string]map[int]Val
	scanRoots map[string][]T
	tagIsRef []bool
	lastTxn T
	getKeys map[string]T
	scanBlocks map[*ssa.BasicBlock]bool
}

func newSession(eng *Engine, name string) *Session {
	s := &Session{eng: eng, Name: name, declared: map[string]bool{}, strLits: map[string]int{"": 0}, strList: []string{""}, typeTags: map[string]int{},
		notes: map[string]bool{}, inlined: map[string]bool{}, used: map[string]bool{}, oblNames: map[string]int{}, shiftKs: map[int]bool{}, ifaceOrigin: map[string]ifaceOrg{}, unixTerms: map[string]bool{}, getKeys: map[string]T{}, litCells: map[string]map[int]Val{}, litSlices: map[string]map[int]Val{}}
	return s
}

func (s *Session) note(format string, a ...interface{}) { s.notes[fmt.Sprintf(format, a...)] = true }

func qsym(name string) string {
	simple := true
	for _, c := range name {
		if !(c == '_' || c == '.' || c == '$' || (c >= 'a' && c <= 'z') || (c >= 'A' && c <= 'Z') || (c >= '0' && c <= '9')) {
			simple = false
			break
		}
	}
	if simple && name != "" && !(name[0] >= '0' && name[0] <= '9') {
		return name
	}
	return "|" + sanitize(name) + "|"
}

func (s *Session) declConst(name, sort string) T {
	q := qsym(name)
	if !s.declared[q] {
		s.declared[q] = true
		s.decls = append(s.decls, fmt.Sprintf("(declare-fun %s () %s)", q, sort))
	}
	return T{q, sort}
}

func (s *Session) declFun(name string, argSorts []string, ret string) string {
	q := qsym(name)
	if !s.declared[q] {
		s.declared[q] = true
		s.decls = append(s.decls, fmt.Sprintf("(declare-fun %s (%s) %s)", q, strings.Join(argSorts, " "), ret))
	}
	return q
}

func (s *Session) tagAssert() {
	for len(s.assertTags) < len(s.asserts)-1 {
		s.assertTags = append(s.assertTags, 0)
	}
	s.assertTags = append(s.assertTags, s.curTag)
	for len(s.assertOrigins) < len(s.asserts)-1 {
		s.assertOrigins = append(s.assertOrigins, "")
	}
	s.assertOrigins = append(s.assertOrigins, s.curOrigin)
}

func (s *Session) fresh(hint, sort string) T {
	s.nfresh++
	return s.declConst(fmt.Sprintf("%s!%d", hint, s.nfresh), sort)
}

func (s *Session) assume(f T) {
	if f.S == "true" {
		return
	}
	s.asserts = append(s.asserts, "(assert "+f.S+")")
	s.tagAssert()
}

// define names a complex term (keeps VCs DAG-shaped).
func (s *Session) define(hint string, t T) T {
	if s.noDefine > 0 || len(t.S) < 24 {
		return t
	}
	c := s.fresh(hint, t.Sort)
	s.asserts = append(s.asserts, fmt.Sprintf("(assert (= %s %s))", c.S, t.S))
	s.tagAssert()
	return c
}

func (s *Session) strLit(v string) T {
	if id, ok := s.strLits[v]; ok {
		return I(int64(id))
	}
	id := len(s.strList)
	s.strLits[v] = id
	s.strList = append(s.strList, v)
	return I(int64(id))
}

func (s *Session) typeTag(t types.Type) T {
	k := typeKey(t)
	if _, isPtr := t.(*types.Pointer); isPtr {
		k = types.TypeString(t, nil)
	}
	if id, ok := s.typeTags[k]; ok {
		return I(int64(id))
	}
	id := len(s.typeTags) + 1
	s.typeTags[k] = id
	// payloads of pointer-like and boxed (multi-leaf) dynamic types are references
	ls := shape(t)
	isRef := len(ls) != 1
	switch t.Underlying().(type) {
	case *types.Pointer, *types.Map:
		isRef = true
	}
	s.tagIsRef = append(s.tagIsRef, isRef)
	return I(int64(id))
}

// sidx is the index of element i of a slice whose window starts at off. With a literal offset it is plain
// arithmetic; with a symbolic offset it is the function sidx(off, i) (= off + i by a global axiom), because
// triggers that contain `+` are not matched reliably by the solvers.
func (s *Session) sidx(off, i T) T {
	if isNumeral(off.S) {
		return Add(off, i)
	}
	return s.uf("sidx", SInt, off, i)
}

func (s *Session) strlen(x T) T {
	f := s.declFun("strlen", []string{SInt}, SInt)
	return T{fmt.Sprintf("(%s %s)", f, x.S), SInt}
}

func (s *Session) uf(name string, ret string, args ...T) T {
	var sorts []string
	for _, a := range args {
		sorts = append(sorts, a.Sort)
	}
	f := s.declFun(name, sorts, ret)
	if len(args) == 0 {
		return T{f, ret}
	}
	return app(ret, f, args...)
}

func (s *Session) addObl(o *Obligation) {
	if s.suppressObl {
		return
	}
	n := s.oblNames[o.Name]
	s.oblNames[o.Name] = n + 1
	if n > 0 {
		o.Name = fmt.Sprintf("%s~%d", o.Name, n+1)
	}
	o.Pos = len(s.asserts)
	if len(s.curSkip) > 0 {
		o.Skip = append([][2]int{}, s.curSkip...)
	}
	o.Tag = s.curTag
	if o.Inputs == nil {
		o.Inputs = s.inputs
	}
	s.obls = append(s.obls, o)
}

// preamble: definitions shared by all queries of the session.
func (s *Session) preamble() string {
	var sb strings.Builder
	sb.WriteString("(set-option :produce-models true)\n(set-logic ALL)\n")
	sb.WriteString("(define-fun pow2 ((k Int)) Int ")
	for i := 0; i <= 64; i++ {
		sb.WriteString(fmt.Sprintf("(ite (= k %d) %s ", i, pow2big(i).String()))
	}
	sb.WriteString("0")
	sb.WriteString(strings.Repeat(")", 65))
	sb.WriteString(")\n")
	for _, d := range s.decls {
		sb.WriteString(d)
		sb.WriteString("\n")
	}
	if s.declared["isreftag"] {
		for i, r := range s.tagIsRef {
			if r {
				sb.WriteString(fmt.Sprintf("(assert (isreftag %d))\n", i+1))
			} else {
				sb.WriteString(fmt.Sprintf("(assert (not (isreftag %d)))\n", i+1))
			}
		}
	}
	if s.declared["bytes2str"] {
		// the empty byte string denotes the empty string
		sb.WriteString("(assert (forall ((a (Array Int Int)) (o Int)) (! (= (bytes2str a o 0) 0) :pattern ((bytes2str a o 0)))))\n")
	}
	if s.declared["keyord"] {
		// keyord embeds the (countable, total) lexicographic order of byte strings into the reals; "" is the least key
		sb.WriteString("(declare-fun keyinv (Real) Int)\n")
		sb.WriteString("(assert (forall ((a Int)) (! (and (>= (keyord a) 0.0) (= (keyinv (keyord a)) a)) :pattern ((keyord a)))))\n(assert (= (keyord 0) 0.0))\n")
	}
	if s.declared["sidx"] {
		sb.WriteString("(assert (forall ((o Int) (i Int)) (! (= (sidx o i) (+ o i)) :pattern ((sidx o i)))))\n")
	}
	if s.declared["unixnano"] {
		sb.WriteString("(assert (= (unixnano 0 0) (- 6795364578871345152)))\n")
	}
	// string literal lengths
	if s.declared["strcat"] && s.declared["strdrop"] && s.declared["strlen"] {
		sb.WriteString("(assert (forall ((x Int) (y Int)) (! (and (= (strlen (strcat x y)) (+ (strlen x) (strlen y))) (= (strdrop (strcat x y) (strlen x)) y)) :pattern ((strcat x y)))))\n")
	}
	if s.declared["strlen"] {
		sb.WriteString("(assert (forall ((x Int)) (! (>= (strlen x) 0) :pattern ((strlen x)))))\n")
		ids := make([]int, 0, len(s.strList))
		for i := range s.strList {
			ids = append(ids, i)
		}
		sort.Ints(ids)
		for _, i := range ids {
			sb.WriteString(fmt.Sprintf("(assert (= (strlen %d) %d))\n", i, len(s.strList[i])))
		}
	}
	return sb.String()
}

func (s *Session) query(o *Obligation) string { return s.queryWith(o, false) }

// hasOpaque: are there opaque-predicate atoms in scope of this obligation?
func (s *Session) hasOpaque(o *Obligation) bool {
	for _, d := range s.opaqueDefs {
		if d.pos <= o.Pos {
			return true
		}
	}
	return false
}

func (s *Session) queryWith(o *Obligation, reveal bool) string {
	var sb strings.Builder
	sb.WriteString("; obligation " + o.Name + "\n; " + strings.ReplaceAll(o.Src, "\n", " ") + "\n")
	sb.WriteString(s.preamble())
	for i := 0; i < o.Pos && i < len(s.asserts); i++ {
		hidden := false
		for _, r := range o.Skip {
			if i >= r[0] && i < r[1] && (strings.Contains(s.asserts[i], "(forall ") || strings.Contains(s.asserts[i], "(exists ")) {
				hidden = true // only quantified facts are hidden; ground definitions stay
			}
		}
		if i < len(s.assertTags) && s.assertTags[i] != 0 && s.assertTags[i] != o.Tag && (strings.Contains(s.asserts[i], "(forall ") || strings.Contains(s.asserts[i], "(exists ")) {
			hidden = true // made inside the body of another isolated loop whose only exits leave from its head
		}
		if len(o.Using) > 0 && i < len(s.assertOrigins) && s.assertOrigins[i] != "" && (strings.Contains(s.asserts[i], "(forall ") || strings.Contains(s.asserts[i], "(exists ")) {
			keep := false
			for _, u := range o.Using {
				if strings.HasPrefix(s.assertOrigins[i], u) {
					keep = true
				}
			}
			if !keep {
				hidden = true
			}
		}
		if hidden {
			continue
		}
		sb.WriteString(s.asserts[i])
		sb.WriteString("\n")
	}
	if reveal {
		for _, d := range s.opaqueDefs {
			if d.pos <= o.Pos {
				sb.WriteString(d.text)
				sb.WriteString("\n")
			}
		}
	}
	sb.WriteString("(assert (not " + Imp(o.Guard, o.Formula).S + "))\n")
	sb.WriteString("(check-sat)\n")
	if len(o.Inputs) > 0 {
		sb.WriteString("(get-value (")
		for _, in := range o.Inputs {
			sb.WriteString(in.Term.S + " ")
		}
		sb.WriteString("))\n")
	}
	return sb.String()
}
