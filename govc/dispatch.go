package main

import (
	"fmt"
	"go/types"
	"strings"
)

// dispatchFacts implements the `dispatch IFACE.METHOD UF` clause (see DispatchRule).
func (s *Session) dispatchFacts(fr *Frame, st *State, boxed Val, from, to types.Type) {
	named, ok := to.(*types.Named)
	if !ok {
		return
	}
	for _, r := range s.topContract.Dispatch {
		if named.Obj().Name() != r.Iface || r.ForType != "" {
			continue
		}
		org := s.ifaceOrigin[boxed.T0().S]
		s.dispatchInstance(st, r, from, org.val, boxed.T0(), nil, TTrue)
	}
}

// dispatchAllFacts implements `dispatch IFACE.METHOD UF for T`: for EVERY interface value that holds a T (not only the
// ones boxed in the function under proof), calling METHOD runs T's method, so that method's verified postconditions
// hold with result = UF(value, args).  Emitted once, in the entry state of the function under proof.
func (s *Session) dispatchAllFacts(fr *Frame, st *State) {
	if s.topContract == nil {
		return
	}
	for _, r := range s.topContract.Dispatch {
		if r.ForType == "" {
			continue
		}
		tn := strings.TrimPrefix(r.ForType, "*")
		var from types.Type = s.resolveType(fr.fn.Pkg.Pkg, tn)
		if strings.HasPrefix(r.ForType, "*") {
			from = types.NewPointer(from)
		}
		if len(shape(from)) != 1 {
			panic(fmt.Sprintf("dispatch ... for %s: only pointer-like receiver types are supported", r.ForType))
		}
		s.nfresh++
		q := qsym(fmt.Sprintf("dp!%d", s.nfresh))
		pT := T{q, SInt}
		boxed := s.uf("mkiface", SInt, s.typeTag(from), pT)
		// no "allocated in the entry state" premise: the method's contract was verified for an arbitrary allocation
		// frontier, and the instantiated clauses speak about heap fields only, so they also hold for objects that
		// are allocated later (whose fields nobody has written since)
		prem := Not(Eq(pT, I(0)))
		s.dispatchInstance(st, r, from, Val{Typ: from, L: []T{pT}}, boxed, []string{fmt.Sprintf("(%s Int)", q)}, prem)
	}
}

func (s *Session) dispatchInstance(st *State, r DispatchRule, from types.Type, recv Val, boxedT T, binders0 []string, premise T) {
	{
		m := s.eng.lookupMethod(from, r.Method)
		if m == nil {
			return
		}
		c := s.contractFor(m)
		if c == nil {
			return
		}
		sig := m.Signature
		names := sigParamNames(m, sig, c)
		// receiver = the concrete value; the other parameters are universally quantified
		env := map[string]Val{}
		binders := append([]string{}, binders0...)
		var ufArgs []T
		ufArgs = append(ufArgs, boxedT)
		s.noDefine++
		for i, n := range names {
			if i == 0 {
				env[n] = recv
				continue
			}
			pt := sig.Params().At(i - 1).Type()
			v := Val{Typ: pt}
			for _, lf := range shape(pt) {
				s.nfresh++
				q := qsym(fmt.Sprintf("dq!%d", s.nfresh))
				binders = append(binders, fmt.Sprintf("(%s %s)", q, lf.Sort))
				v.L = append(v.L, T{q, lf.Sort})
			}
			env[n] = v
			ufArgs = append(ufArgs, intLeaves(v.L)...)
		}
		resSort := SBool
		if sig.Results().Len() != 1 || !isBoolT(sig.Results().At(0).Type()) {
			s.noDefine--
			return
		}
		ufT := s.uf("specb:"+r.UF, resSort, ufArgs...)
		env["result"] = boolVal(ufT)
		env["r0"] = boolVal(ufT)
		pkgT := s.eng.typesPkg(c.Pkg)
		se := &SpecEnv{sess: s, pkg: pkgT, vars: env, st: st, old: st}
		var pre, post []T
		okAll := true
		func() {
			defer func() {
				if rec := recover(); rec != nil {
					okAll = false
				}
			}()
			for _, rq := range c.Requires {
				if rq.Mode == "" {
					pre = append(pre, s.evalBool(se, rq.E))
				}
			}
			for _, en := range c.Ensures {
				if en.Mode == "" {
					post = append(post, s.evalBool(se, en.E))
				}
			}
		}()
		s.noDefine--
		if !okAll || len(post) == 0 || len(binders) == 0 {
			return
		}
		pre = append(pre, premise)
		ax := fmt.Sprintf("(forall (%s) (! %s :pattern (%s)))", strings.Join(binders, " "), Imp(And(pre...), And(post...)).S, ufT.S)
		s.assume(Imp(st.Reach, T{ax, SBool}))
		s.note("DISPATCH: %s.%s on a boxed %s runs that type's method: its postconditions are assumed for every argument with result = %s(value, args)", r.Iface, r.Method, types.TypeString(from, nil), r.UF)
	}
}
