package main

import (
	"fmt"
	"go/types"
	"strings"
)

// dispatchFacts implements the `dispatch IFACE.METHOD UF` clause (see DispatchRule).
func (s *Session) dispatchFacts(fr *Frame, st *State, boxed Val, from, to types.Type) {
	named, ok := to.(*types.Named)
	if !ok {
		return
	}
	for _, r := range s.topContract.Dispatch {
		if named.Obj().Name() != r.Iface {
			continue
		}
		m := s.eng.lookupMethod(from, r.Method)
		if m == nil {
			continue
		}
		c := s.contractFor(m)
		if c == nil {
			continue
		}
		sig := m.Signature
		names := sigParamNames(m, sig, c)
		// receiver = the concrete value; the other parameters are universally quantified
		env := map[string]Val{}
		var binders []string
		var ufArgs []T
		ufArgs = append(ufArgs, boxed.T0())
		s.noDefine++
		for i, n := range names {
			if i == 0 {
				org := s.ifaceOrigin[boxed.T0().S]
				env[n] = org.val
				continue
			}
			pt := sig.Params().At(i - 1).Type()
			v := Val{Typ: pt}
			for _, lf := range shape(pt) {
				s.nfresh++
				q := qsym(fmt.Sprintf("dq!%d", s.nfresh))
				binders = append(binders, fmt.Sprintf("(%s %s)", q, lf.Sort))
				v.L = append(v.L, T{q, lf.Sort})
			}
			env[n] = v
			ufArgs = append(ufArgs, intLeaves(v.L)...)
		}
		resSort := SBool
		if sig.Results().Len() != 1 || !isBoolT(sig.Results().At(0).Type()) {
			s.noDefine--
			continue
		}
		ufT := s.uf("specb:"+r.UF, resSort, ufArgs...)
		env["result"] = boolVal(ufT)
		env["r0"] = boolVal(ufT)
		pkgT := s.eng.typesPkg(c.Pkg)
		se := &SpecEnv{sess: s, pkg: pkgT, vars: env, st: st, old: st}
		var pre, post []T
		okAll := true
		func() {
			defer func() {
				if rec := recover(); rec != nil {
					okAll = false
				}
			}()
			for _, rq := range c.Requires {
				if rq.Mode == "" {
					pre = append(pre, s.evalBool(se, rq.E))
				}
			}
			for _, en := range c.Ensures {
				if en.Mode == "" {
					post = append(post, s.evalBool(se, en.E))
				}
			}
		}()
		s.noDefine--
		if !okAll || len(post) == 0 || len(binders) == 0 {
			continue
		}
		ax := fmt.Sprintf("(forall (%s) (! %s :pattern (%s)))", strings.Join(binders, " "), Imp(And(pre...), And(post...)).S, ufT.S)
		s.assume(Imp(st.Reach, T{ax, SBool}))
		s.note("DISPATCH: %s.%s on a boxed %s runs that type's method: its postconditions are assumed for every argument with result = %s(value, args)", r.Iface, r.Method, types.TypeString(from, nil), r.UF)
	}
}

