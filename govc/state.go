package main

import (
	"fmt"
	"go/types"
	"sort"
	"strings"
)

// State is the symbolic machine state at a program point.
type State struct {
	Reach T
	Heap  map[string]T // heap name -> current array term; absent = epoch constant
	Sorts map[string]string
	Epoch int
	Top   T
	Locks map[string]bool // names of held locks (static), informational
}

func (st *State) clone() *State {
	n := &State{Reach: st.Reach, Heap: make(map[string]T, len(st.Heap)), Sorts: st.Sorts, Epoch: st.Epoch, Top: st.Top, Locks: map[string]bool{}}
	for k, v := range st.Heap {
		n.Heap[k] = v
	}
	for k, v := range st.Locks {
		n.Locks[k] = v
	}
	return n
}

func heapName(kind, typeKey, path string) string { return kind + ":" + typeKey + ":" + path }

func (s *Session) heapGet(st *State, name, sort string) T {
	if t, ok := st.Heap[name]; ok {
		return t
	}
	st.Sorts[name] = sort
	t := s.declConst(fmt.Sprintf("h%d:%s", st.Epoch, name), sort)
	st.Heap[name] = t
	return t
}

// heapSortFor: array sort for a leaf sort nested under n indices (ref + idx...).
func nestSort(leaf string, n int) string {
	s := leaf
	for i := 0; i < n; i++ {
		s = arrSort(s)
	}
	return s
}

// locLeafNames returns for each leaf of loc.Typ the heap name and the heap's SMT sort.
func locHeaps(loc *Loc) (names []string, sorts []string, leaves []Leaf) {
	leaves = shape(loc.Typ)
	for _, l := range leaves {
		names = append(names, heapName(loc.Kind, loc.TypeKey, loc.Path+l.Path))
		n := 1 + len(loc.Idx)
		if loc.Kind == "A" && len(loc.Idx) == 0 {
			n = 2 // whole backing array addressed
		}
		sorts = append(sorts, nestSort(l.Sort, n))
	}
	return
}

func nestedSelect(h T, idx []T) T {
	t := h
	for _, i := range idx {
		t = Select(t, i)
	}
	return t
}

func nestedStore(h T, idx []T, v T) T {
	if len(idx) == 1 {
		return Store(h, idx[0], v)
	}
	inner := Select(h, idx[0])
	return Store(h, idx[0], nestedStore(inner, idx[1:], v))
}

func (s *Session) load(st *State, loc *Loc) Val {
	if loc.Kind == "G" && s.eng.db.ConstGlobals[loc.TypeKey] == "zero" && loc.Path == "" {
		return zeroVal(loc.Typ)
	}
	if loc.Kind == "G" && s.eng.db.ConstGlobals[loc.TypeKey] == "init" {
		if v, ok := s.initGlobal(loc); ok {
			return v
		}
	}
	names, sorts, leaves := locHeaps(loc)
	v := Val{Typ: loc.Typ}
	idx := append([]T{loc.Ref}, loc.Idx...)
	for i := range leaves {
		h := s.heapGet(st, names[i], sorts[i])
		v.L = append(v.L, s.foldSelect(h, idx))
	}
	return v
}

// heapDef remembers that a named heap version is store(base, idx, val), so that reads of a location that was
// just written (or of a syntactically different numeral location) are resolved while the VC is built.
type heapDef struct {
	base T
	idx  []T
	val  T
}

func (s *Session) foldSelect(h T, idx []T) T {
	for steps := 0; steps < 64; steps++ {
		d, ok := s.heapDefs[h.S]
		if !ok || len(d.idx) != len(idx) {
			break
		}
		same, distinct := true, false
		for k := range idx {
			if d.idx[k].S != idx[k].S {
				same = false
				if isNumeral(d.idx[k].S) && isNumeral(idx[k].S) {
					distinct = true
				}
			}
		}
		if same {
			return d.val
		}
		if !distinct {
			break
		}
		h = d.base
	}
	return nestedSelect(h, idx)
}

func (s *Session) store(st *State, loc *Loc, v Val) {
	names, sorts, leaves := locHeaps(loc)
	if len(leaves) != len(v.L) {
		panic(fmt.Sprintf("store: shape mismatch %v (%d) vs value %v (%d)", loc.Typ, len(leaves), v.Typ, len(v.L)))
	}
	idx := append([]T{loc.Ref}, loc.Idx...)
	for i := range leaves {
		h := s.heapGet(st, names[i], sorts[i])
		nh := nestedStore(h, idx, v.L[i])
		nm := s.define("H", nh)
		st.Heap[names[i]] = nm
		if nm.S != nh.S {
			if s.heapDefs == nil {
				s.heapDefs = map[string]heapDef{}
			}
			s.heapDefs[nm.S] = heapDef{base: h, idx: idx, val: v.L[i]}
		}
	}
}

// havocAll forgets everything about the heap.
func (s *Session) havocAll(st *State) {
	s.nfresh++
	st.Epoch = s.nfresh + 1000
	st.Heap = map[string]T{}
	oldTop := st.Top
	st.Top = s.fresh("top", SInt)
	s.assume(Ge(st.Top, oldTop))
}

func (s *Session) havocHeap(st *State, name, sort string) {
	st.Sorts[name] = sort
	st.Heap[name] = s.fresh("hv:"+name, sort)
}

// mergeStates joins states under the given (mutually exclusive) edge conditions.
func (s *Session) mergeStates(conds []T, sts []*State) *State {
	if len(sts) == 1 {
		n := sts[0].clone()
		n.Reach = conds[0]
		return n
	}
	out := &State{Heap: map[string]T{}, Sorts: sts[0].Sorts, Locks: map[string]bool{}}
	out.Reach = s.define("reach", Or(conds...))
	// epoch: if they differ, materialise all names of all states first
	names := map[string]bool{}
	for _, st := range sts {
		for k := range st.Heap {
			names[k] = true
		}
	}
	sameEpoch := true
	for _, st := range sts[1:] {
		if st.Epoch != sts[0].Epoch {
			sameEpoch = false
		}
	}
	out.Epoch = sts[0].Epoch
	if !sameEpoch {
		s.nfresh++
		out.Epoch = s.nfresh + 1000
	}
	keys := make([]string, 0, len(names))
	for k := range names {
		keys = append(keys, k)
	}
	sort.Strings(keys)
	for _, k := range keys {
		sortK := sts[0].Sorts[k]
		terms := make([]T, len(sts))
		same := true
		for i, st := range sts {
			terms[i] = s.heapGet(st, k, sortK)
			if terms[i].S != terms[0].S {
				same = false
			}
		}
		if same {
			out.Heap[k] = terms[0]
			continue
		}
		m := terms[len(terms)-1]
		for i := len(terms) - 2; i >= 0; i-- {
			m = Ite(conds[i], terms[i], m)
		}
		out.Heap[k] = s.define("Hm", m)
	}
	// top
	sameTop := true
	for _, st := range sts[1:] {
		if st.Top.S != sts[0].Top.S {
			sameTop = false
		}
	}
	if sameTop {
		out.Top = sts[0].Top
	} else {
		m := sts[len(sts)-1].Top
		for i := len(sts) - 2; i >= 0; i-- {
			m = Ite(conds[i], sts[i].Top, m)
		}
		out.Top = s.define("top", m)
	}
	for k := range sts[0].Locks {
		all := true
		for _, st := range sts[1:] {
			if !st.Locks[k] {
				all = false
			}
		}
		if all {
			out.Locks[k] = true
		}
	}
	return out
}

func (s *Session) mergeVals(conds []T, vs []Val) Val {
	if len(vs) == 1 {
		return vs[0]
	}
	v0 := vs[0]
	if v0.Tup != nil {
		out := Val{Typ: v0.Typ}
		for i := range v0.Tup {
			sub := make([]Val, len(vs))
			for j := range vs {
				sub[j] = vs[j].Tup[i]
			}
			out.Tup = append(out.Tup, s.mergeVals(conds, sub))
		}
		return out
	}
	// closures / functions: must be identical
	if v0.Clo != nil || v0.Fn != nil {
		for _, v := range vs[1:] {
			if v.Clo == nil && v.Fn == nil {
				return s.opaqueVal(v0.Typ, "mergedfn")
			}
			if (v.Fn != v0.Fn) || (v.Clo != nil && v0.Clo != nil && v.Clo.Fn != v0.Clo.Fn) {
				return s.opaqueVal(v0.Typ, "mergedfn")
			}
		}
		return v0
	}
	// static locations with identical structure merge on Ref/Idx
	allLoc := true
	for _, v := range vs {
		if v.Loc == nil {
			allLoc = false
		}
	}
	if allLoc {
		same := true
		for _, v := range vs[1:] {
			if v.Loc.Kind != v0.Loc.Kind || v.Loc.TypeKey != v0.Loc.TypeKey || v.Loc.Path != v0.Loc.Path || len(v.Loc.Idx) != len(v0.Loc.Idx) {
				same = false
			}
		}
		if same {
			nl := *v0.Loc
			refs := make([]T, len(vs))
			for i, v := range vs {
				refs[i] = v.Loc.Ref
			}
			nl.Ref = s.mergeTerms(conds, refs)
			nl.Idx = nil
			for k := range v0.Loc.Idx {
				is := make([]T, len(vs))
				for i, v := range vs {
					is[i] = v.Loc.Idx[k]
				}
				nl.Idx = append(nl.Idx, s.mergeTerms(conds, is))
			}
			return Val{Typ: v0.Typ, Loc: &nl}
		}
	}
	out := Val{Typ: v0.Typ}
	conv := make([]Val, len(vs))
	for i, v := range vs {
		conv[i] = s.materialize(v)
	}
	for k := range conv[0].L {
		ts := make([]T, len(conv))
		for i := range conv {
			if k >= len(conv[i].L) {
				panic(fmt.Sprintf("mergeVals: shape mismatch %v vs %v", conv[0].Typ, conv[i].Typ))
			}
			ts[i] = conv[i].L[k]
		}
		out.L = append(out.L, s.mergeTerms(conds, ts))
	}
	return out
}

func (s *Session) mergeTerms(conds []T, ts []T) T {
	same := true
	for _, t := range ts[1:] {
		if t.S != ts[0].S {
			same = false
		}
	}
	if same {
		return ts[0]
	}
	m := ts[len(ts)-1]
	for i := len(ts) - 2; i >= 0; i-- {
		m = Ite(conds[i], ts[i], m)
	}
	return s.define("phi", m)
}

// materialize turns a static pointer into an SMT Int (whole-object pointers keep their ref).
func (s *Session) materialize(v Val) Val {
	if v.Loc != nil {
		l := v.Loc
		if l.Path == "" && len(l.Idx) == 0 && (l.Kind == "F" || l.Kind == "P") {
			return Val{Typ: v.Typ, L: []T{l.Ref}}
		}
		args := append([]T{l.Ref}, l.Idx...)
		return Val{Typ: v.Typ, L: []T{s.uf("addr:"+l.Kind+":"+l.TypeKey+":"+l.Path, SInt, args...)}}
	}
	if v.Clo != nil || v.Fn != nil {
		name := ""
		if v.Fn != nil {
			name = v.Fn.String()
		} else {
			name = v.Clo.Fn.String()
		}
		return Val{Typ: v.Typ, L: []T{s.uf("fnval:"+name, SInt)}}
	}
	return v
}

func (s *Session) opaqueVal(t types.Type, hint string) Val {
	if tup, ok := t.(*types.Tuple); ok {
		v := Val{Typ: t}
		for i := 0; i < tup.Len(); i++ {
			v.Tup = append(v.Tup, s.opaqueVal(tup.At(i).Type(), hint))
		}
		return v
	}
	v := Val{Typ: t}
	for _, l := range shape(t) {
		v.L = append(v.L, s.fresh(hint+strings.ReplaceAll(l.Path, ".", "_"), l.Sort))
	}
	return v
}

// rangeFacts returns the type-invariant facts of a value (integer ranges, non-negative lengths...).
func (s *Session) rangeFacts(v Val) T {
	if v.Tup != nil {
		var fs []T
		for _, x := range v.Tup {
			fs = append(fs, s.rangeFacts(x))
		}
		return And(fs...)
	}
	if v.Loc != nil || v.Clo != nil || v.Fn != nil || v.Typ == nil {
		return TTrue
	}
	var fs []T
	for i, l := range shape(v.Typ) {
		if i >= len(v.L) {
			break
		}
		x := v.L[i]
		if l.Sort != SInt {
			continue
		}
		if lo, hi, _, _, ok := intRange(l.Typ); ok && !strings.Contains(l.Path, "#") {
			fs = append(fs, Le(bigT(lo), x), Le(x, bigT(hi)))
			continue
		}
		fs = append(fs, Ge(x, I(0)))
		if strings.HasSuffix(l.Path, "#len") || strings.HasSuffix(l.Path, "#off") {
			fs = append(fs, Le(x, bigT(maxSliceLen)))
		}
	}
	return And(fs...)
}

// refFacts: every reference stored anywhere was allocated before now (<= top).
func (s *Session) refFacts(st *State, v Val) T {
	if v.Tup != nil {
		var fs []T
		for _, x := range v.Tup {
			fs = append(fs, s.refFacts(st, x))
		}
		return And(fs...)
	}
	if v.Loc != nil || v.Clo != nil || v.Fn != nil || v.Typ == nil {
		return TTrue
	}
	var fs []T
	for i, l := range shape(v.Typ) {
		if i >= len(v.L) || l.Sort != SInt {
			continue
		}
		isRef := false
		if strings.HasSuffix(l.Path, "#ptr") {
			isRef = true
		} else if !strings.Contains(l.Path, "#") {
			switch l.Typ.Underlying().(type) {
			case *types.Pointer, *types.Map:
				isRef = true
			}
		}
		if isRef {
			fs = append(fs, Le(v.L[i], st.Top))
		}
		if !strings.Contains(l.Path, "#") {
			if _, isIface := l.Typ.Underlying().(*types.Interface); isIface {
				x := v.L[i]
				fs = append(fs, Imp(s.uf("isreftag", SBool, s.uf("typeof", SInt, x)), Le(s.uf("payload", SInt, x), st.Top)))
				// interface values are determined by dynamic type and payload
				fs = append(fs, Imp(Not(Eq(x, I(0))), Eq(x, s.uf("mkiface", SInt, s.uf("typeof", SInt, x), s.uf("payload", SInt, x)))))
			}
		}
	}
	return And(fs...)
}

func (s *Session) assumeRange(st *State, v Val) {
	f := s.rangeFacts(v)
	if f.S != "true" {
		s.assume(f)
	}
}

// initGlobal: value of a package-level variable that is only written by its package initialiser with
// constant operands (checked: no other store to it exists in the package). The initialiser's stores are
// read from the SSA of the package init function of the current source.
func (s *Session) initGlobal(loc *Loc) (Val, bool) {
	full, ok := s.eng.globalInit(loc.TypeKey)
	if !ok {
		return Val{}, false
	}
	// select sub-value at loc.Path / loc.Idx
	ls := shape(full.Typ)
	sub := shape(loc.Typ)
	out := Val{Typ: loc.Typ}
	for _, sl := range sub {
		found := false
		for i, l := range ls {
			if l.Path == loc.Path+sl.Path {
				out.L = append(out.L, nestedSelect(full.L[i], loc.Idx))
				found = true
				break
			}
		}
		if !found {
			return Val{}, false
		}
	}
	return out, true
}
