package main

import (
	"fmt"
	"go/types"
	"sort"
	"strings"

	"golang.org/x/tools/go/ssa"
)

// ---- local variable lookup for loop invariants ----

type localDef struct {
	blk    *ssa.BasicBlock
	idx    int
	val    ssa.Value
	isAddr bool
}

func localIndex(fn *ssa.Function) map[string][]localDef {
	out := map[string][]localDef{}
	for _, b := range fn.Blocks {
		for i, in := range b.Instrs {
			switch x := in.(type) {
			case *ssa.Phi:
				if x.Comment != "" {
					out[x.Comment] = append(out[x.Comment], localDef{b, i, x, false})
				}
			case *ssa.Alloc:
				if x.Comment != "" {
					out[x.Comment] = append(out[x.Comment], localDef{b, i, x, true})
				}
			case *ssa.DebugRef:
				if x.Object() != nil {
					out[x.Object().Name()] = append(out[x.Object().Name()], localDef{b, i, x.X, x.IsAddr})
				}
			}
		}
	}
	return out
}

func domDepth(b *ssa.BasicBlock) int {
	d := 0
	for b.Idom() != nil {
		b = b.Idom()
		d++
	}
	return d
}

func (s *Session) localLookup(fr *Frame, st *State, at *ssa.BasicBlock) func(string) (Val, bool) {
	return s.localLookupAt(fr, st, at, -1)
}

func (s *Session) localLookupAt(fr *Frame, st *State, at *ssa.BasicBlock, atIdx int) func(string) (Val, bool) {
	return s.localLookupFiltered(fr, st, at, atIdx, false)
}

// localCellLookupAt resolves only variables that live in a memory cell (address taken or reassigned parameters).
func (s *Session) localCellLookupAt(fr *Frame, st *State, at *ssa.BasicBlock, atIdx int) func(string) (Val, bool) {
	return s.localLookupFiltered(fr, st, at, atIdx, true)
}

// localCellLocAt: the memory cell of a local variable whose address is taken (a struct whose fields are assigned, a
// variable captured by a closure), for `modifies` items that name one of its fields.
func (s *Session) localCellLocAt(fr *Frame, st *State, at *ssa.BasicBlock, atIdx int) func(string) (*Loc, bool) {
	if fr.locals == nil {
		fr.locals = localIndex(fr.fn)
	}
	return func(name string) (*Loc, bool) {
		var best *localDef
		bestKey := [2]int{-1, -1}
		defs := fr.locals[name]
		for i := range defs {
			d := &defs[i]
			if !d.isAddr {
				continue
			}
			if !(d.blk == at && d.idx < atIdx) && !d.blk.Dominates(at) {
				continue
			}
			if _, known := fr.vals[d.val]; !known {
				continue
			}
			key := [2]int{domDepth(d.blk), d.idx}
			if key[0] > bestKey[0] || (key[0] == bestKey[0] && key[1] > bestKey[1]) {
				best, bestKey = d, key
			}
		}
		if best == nil {
			return nil, false
		}
		return s.toLoc(s.valueOf(fr, best.val)), true
	}
}

func (s *Session) localLookupFiltered(fr *Frame, st *State, at *ssa.BasicBlock, atIdx int, cellsOnly bool) func(string) (Val, bool) {
	if fr.locals == nil {
		fr.locals = localIndex(fr.fn)
	}
	return func(name string) (Val, bool) {
		defs := fr.locals[name]
		if cellsOnly {
			var cells []localDef
			for _, d := range defs {
				if d.isAddr {
					cells = append(cells, d)
				}
			}
			defs = cells
		}
		var best *localDef
		bestKey := [2]int{-1, -1}
		// a variable that lives in a memory cell (address taken, captured by a closure) always denotes the current
		// content of the cell: value definitions recorded for the same name (its initialiser) are stale
		hasCell := false
		for i := range defs {
			d := &defs[i]
			if d.isAddr && (d.blk.Dominates(at) || d.blk == at) {
				if _, known := fr.vals[d.val]; known {
					hasCell = true
				}
			}
		}
		for i := range defs {
			d := &defs[i]
			if hasCell && !d.isAddr {
				continue
			}
			ok := false
			if d.blk == at {
				_, isPhi := d.val.(*ssa.Phi)
				ok = (isPhi && !d.isAddr) || d.idx < atIdx
			} else if d.blk.Dominates(at) {
				ok = true
			}
			if !ok {
				continue
			}
			if _, known := fr.vals[d.val]; !known {
				if _, isC := d.val.(*ssa.Const); !isC {
					continue
				}
			}
			key := [2]int{domDepth(d.blk), d.idx}
			if key[0] > bestKey[0] || (key[0] == bestKey[0] && key[1] > bestKey[1]) {
				best, bestKey = d, key
			}
		}
		if best == nil {
			return Val{}, false
		}
		v := s.valueOf(fr, best.val)
		if best.isAddr {
			return s.load(st, s.toLoc(v)), true
		}
		return v, true
	}
}

func (s *Session) frameEnv(fr *Frame) map[string]Val {
	env := map[string]Val{}
	for i, p := range fr.fn.Params {
		env[p.Name()] = fr.params[i]
	}
	for k, v := range fr.env {
		env[k] = v
	}
	return env
}

func (s *Session) evalBoolClause(fr *Frame, c Clause, st *State, at *ssa.BasicBlock) (res T) {
	return s.evalBoolClauseAt(fr, c, st, at, -1)
}

func (s *Session) evalBoolClauseAt(fr *Frame, c Clause, st *State, at *ssa.BasicBlock, atIdx int) (res T) {
	return s.evalClauseMode(fr, c, st, at, atIdx, false)
}

// evalGoalClauseAt: the clause as a proof goal (see evalGoal).
func (s *Session) evalGoalClauseAt(fr *Frame, c Clause, st *State, at *ssa.BasicBlock, atIdx int) (res T) {
	return s.evalClauseMode(fr, c, st, at, atIdx, true)
}

func (s *Session) evalClauseMode(fr *Frame, c Clause, st *State, at *ssa.BasicBlock, atIdx int, goal bool) (res T) {
	se := &SpecEnv{sess: s, pkg: fr.fn.Pkg.Pkg, vars: s.frameEnv(fr), st: st, old: fr.old, fr: fr}
	if at != nil {
		se.lookup = s.localLookupAt(fr, st, at, atIdx)
		se.lookupCell = s.localCellLookupAt(fr, st, at, atIdx)
		se.lookupLoc = s.localCellLocAt(fr, st, at, atIdx)
		if fr.loopEntry != nil {
			se.pre = fr.loopEntry[at]
		}
	}
	defer func() {
		if r := recover(); r != nil {
			if se, ok := r.(specErr); ok {
				panic(fmt.Sprintf("%s: in clause %q: %s", fr.fn.String(), c.Src, se.msg))
			}
			panic(r)
		}
	}()
	if goal {
		return s.evalGoal(se, c.E)
	}
	return s.evalBool(se, c.E)
}

// ---- verifying one function against its contract ----

type FuncReport struct {
	Key     string
	Session *Session
	Err     string
}

// contractModes lists the modes used by the clauses of a contract.
func contractModes(c *Contract) []string {
	seen := map[string]bool{}
	var out []string
	all := append(append([]Clause{}, c.Requires...), c.Ensures...)
	for _, itf := range c.Interf {
		all = append(all, itf.Pred)
	}
	var atKeys []string
	for k := range c.Ats {
		atKeys = append(atKeys, k)
	}
	sort.Strings(atKeys)
	for _, k := range atKeys {
		all = append(all, c.Ats[k]...)
	}
	for _, cl := range all {
		if cl.Mode != "" && !seen[cl.Mode] {
			seen[cl.Mode] = true
			out = append(out, cl.Mode)
		}
	}
	return out
}

// verifyFunc proves the unmoded contract (mode ""); verifyFuncMode proves, for one mode M, the @M postconditions
// under the unmoded and the @M preconditions.
func (e *Engine) verifyFunc(c *Contract) (rep *FuncReport) { return e.verifyFuncMode(c, "") }

func (e *Engine) verifyFuncMode(c *Contract, mode string) (rep *FuncReport) {
	key := c.Pkg + "::" + c.FuncKey
	short := shortPkg(c.Pkg) + "." + strings.NewReplacer("(*", "", "(", "", ")", "").Replace(c.FuncKey)
	if mode != "" {
		key += "@" + mode
		short += "@" + mode
	}
	s := newSession(e, short)
	s.topContract = c
	s.runMode = mode
	rep = &FuncReport{Key: key, Session: s}
	defer func() {
		if r := recover(); r != nil {
			if se, ok := r.(specErr); ok {
				rep.Err = se.msg
			} else {
				rep.Err = fmt.Sprint(r)
			}
			if e.verbose {
				panic(r)
			}
		}
	}()
	fn := e.lookupFunc(c.Pkg, c.FuncKey)
	if fn == nil {
		rep.Err = "function not found in the current source: " + key
		return
	}
	if len(fn.Blocks) == 0 {
		rep.Err = "function has no body: " + key
		return
	}
	st := &State{Reach: TTrue, Heap: map[string]T{}, Sorts: map[string]string{}, Top: s.declConst("top0", SInt), Locks: map[string]bool{}}
	s.assume(Ge(st.Top, I(0)))
	// the ghost event clock is relative to the function entry: nothing has happened yet
	s.ghostSet(st, "evclock", zeroOfSort(arrSort(SInt)))
	s.ghostSet(st, "evlast", zeroOfSort(arrSort(SInt)))
	s.ghostSet(st, "evcount", zeroOfSort(arrSort(SInt)))
	fr := &Frame{sess: s, fn: fn, depth: 0, top: true, contract: c, stack: []*ssa.Function{fn}, oblPfx: short, nSafety: map[string]int{}}
	s.topFrame = fr
	for _, p := range fn.Params {
		v := Val{Typ: p.Type()}
		for _, l := range shape(p.Type()) {
			t := s.declConst("p_"+p.Name()+strings.ReplaceAll(l.Path, ".", "_"), l.Sort)
			v.L = append(v.L, t)
			s.inputs = append(s.inputs, namedTerm{p.Name() + l.Path, t})
		}
		s.assume(And(s.rangeFacts(v), s.refFacts(st, v)))
		fr.params = append(fr.params, v)
	}
	// a closure under contract: its captured variables are cells of the enclosing function; in specifications their
	// names denote the values the cells hold when the closure is entered (the closure must not reassign them)
	if len(fn.FreeVars) > 0 {
		fr.preVals = map[ssa.Value]Val{}
		fr.env = map[string]Val{}
		var cells []T
		for _, fv := range fn.FreeVars {
			cell := s.declConst("fv_"+fv.Name(), SInt)
			s.assume(And(Ge(cell, I(1)), Le(cell, st.Top)))
			for _, o := range cells {
				s.assume(Not(Eq(cell, o))) // different variables live in different cells
			}
			cells = append(cells, cell)
			cv := Val{Typ: fv.Type(), L: []T{cell}}
			fr.preVals[fv] = cv
			content := s.load(st, s.toLoc(cv))
			s.assume(And(s.rangeFacts(content), s.refFacts(st, content)))
			fr.env[fv.Name()] = content
		}
		s.note("closure %s verified on its own: captured variables are arbitrary cells of the enclosing frame", fn.String())
	}
	if fn.Signature.Recv() != nil && isPointer(fn.Params[0].Type()) && c.Options["nilrecv"] == "" {
		s.assume(Gt(fr.params[0].L[0], I(0)))
		s.note("receiver of %s assumed non-nil", fn.String())
	}
	fr.old = st.clone()
	for _, rq := range c.Requires {
		if rq.Mode != "" && rq.Mode != mode {
			continue
		}
		f := s.evalBoolClause(fr, rq, st, nil)
		s.curOrigin = "requires"
		s.assume(f)
		s.curOrigin = ""
	}
	s.curOrigin = "requires"
	s.dispatchAllFacts(fr, st)
	s.curOrigin = ""
	s.reqEnd = len(s.asserts)
	fr.old = st.clone()
	fr.old.Heap = map[string]T{}
	for k, v := range st.Heap {
		fr.old.Heap[k] = v
	}
	results, out := s.execBody(fr, st)
	if out == nil {
		s.note("%s: no return reachable", fn.String())
		return
	}
	// vacuity: the exit must be reachable under the assumptions
	s.addObl(&Obligation{Name: short + "/vacuity", Kind: "vacuity", Func: short, Src: "exit reachable (assumptions consistent)", Guard: TTrue, Formula: Not(out.Reach)})
	env := s.frameEnv(fr)
	bindResults(env, fn.Signature, results)
	fr.env = env
	for _, w := range c.Witness {
		// Skolem witnesses: the specification functions uf(...result...) are otherwise unconstrained at this call's
		// (fresh) result, so the proof may choose their values
		s.assume(Imp(out.Reach, s.evalBoolClause(fr, w, out, nil)))
		s.note("WITNESS in %s: specification function defined over the result of the call: %s", fn.String(), w.Src)
	}
	for i, en := range c.Ensures {
		if en.Mode != mode {
			continue // the unmoded run proves the unmoded postconditions, the run for mode M proves the @M ones
		}
		subs := splitClause(en)
		for _, sub := range subs {
			oname := fmt.Sprintf("%s/post.%s", short, clauseNameSplit(en, i, sub, len(subs)))
			var f T
			// a postcondition that names the result of a call (callres) which the body never makes cannot hold
			notYet := func() (ny bool) {
				defer func() {
					if r := recover(); r != nil {
						if e, ok := r.(specErr); ok && strings.Contains(e.msg, "no such call executed yet") {
							ny = true
							return
						}
						if e, ok := r.(string); ok && strings.Contains(e, "no such call executed yet") {
							ny = true
							return
						}
						panic(r)
					}
				}()
				f = s.evalGoalClauseAt(fr, sub, out, nil, -1)
				return false
			}()
			if notYet {
				s.addObl(&Obligation{Name: oname, Kind: "post", Func: short, Src: "ensures " + sub.Src + "   [names the result of a call that the body does not make]", Guard: out.Reach, Formula: TFalse, Using: en.Using})
				continue
			}
			s.addObl(&Obligation{Name: oname, Kind: "post", Func: short, Src: "ensures " + sub.Src, Guard: out.Reach, Formula: f, Using: en.Using})
		}
	}
	if c.ModGiven && c.Options["assumeframe"] == "" {
		s.frameObligations(fr, c, out, short)
	} else if c.Options["assumeframe"] != "" {
		s.note("ASSUMED (not proved): the frame (`modifies`) of %s - its body contains effects the engine cannot bound; clauses and call-site assertions are proved, the frame is trusted", fn.String())
	}
	return
}

func shortPkg(p string) string {
	if i := strings.LastIndex(p, "/"); i >= 0 {
		return p[i+1:]
	}
	return p
}

// frameObligations: every heap family changed by the body may differ from its entry value only
// at the locations named by `modifies` (and at objects allocated by the call).
func (s *Session) frameObligations(fr *Frame, c *Contract, out *State, short string) {
	allowAll := false
	for _, it := range c.Modifies {
		if it == "*" {
			allowAll = true
		}
	}
	if allowAll {
		return
	}
	if out.Epoch != fr.old.Epoch {
		s.addObl(&Obligation{Name: short + "/frame", Kind: "frame", Func: short, Src: "body has unknown effects (havoc) but modifies clause is not *", Guard: out.Reach, Formula: TFalse})
		return
	}
	se := &SpecEnv{sess: s, pkg: fr.fn.Pkg.Pkg, vars: s.frameEnv(fr), st: fr.old, old: fr.old, fr: fr}
	allowed := map[string][]modLoc{}
	for _, it := range c.Modifies {
		locs, err := s.itemLocs(se, it)
		if err != nil {
			panic(fmt.Sprintf("%s: modifies %q: %v", short, it, err))
		}
		for _, l := range locs {
			allowed[l.heap] = append(allowed[l.heap], l)
		}
	}
	names := make([]string, 0, len(out.Heap))
	for n := range out.Heap {
		names = append(names, n)
	}
	sort.Strings(names)
	top0 := fr.old.Top
	var conj []T
	var srcs []string
	for _, n := range names {
		cur := out.Heap[n]
		sortN := out.Sorts[n]
		init := s.heapGet(fr.old, n, sortN)
		if cur.S == init.S {
			continue
		}
		if strings.HasPrefix(n, "X:visit:") {
			continue // ghost of a map range (which keys have been produced): local to the loop
		}
		if strings.HasPrefix(n, "X:") {
			ok := false
			for _, l := range allowed[n] {
				if l.whole {
					ok = true
				}
			}
			if !ok && len(allowed[n]) > 0 && isArr(sortN) {
				// row-level permissions on a ghost map: every other row is unchanged
				r := s.fresh("fr", SInt)
				var conds []T
				for _, l := range allowed[n] {
					conds = append(conds, Not(Eq(r, l.ref)))
				}
				conj = append(conj, Imp(And(conds...), Eq(Select(cur, r), Select(init, r))))
				srcs = append(srcs, n)
				continue
			}
			if !ok && !strings.HasPrefix(n, "X:txn:") && !strings.HasSuffix(n, "0") && !strings.HasPrefix(n, "X:ev") {
				conj = append(conj, Eq(cur, init))
				srcs = append(srcs, n)
			}
			continue
		}
		if strings.HasPrefix(n, "G:") {
			// globals: single cell at index 0
			ok := false
			for _, l := range allowed[n] {
				if l.whole || len(l.idx) == 0 {
					ok = true
				}
			}
			if !ok {
				conj = append(conj, Eq(Select(cur, I(0)), Select(init, I(0))))
				srcs = append(srcs, n)
			}
			continue
		}
		whole := false
		for _, l := range allowed[n] {
			if l.whole {
				whole = true
			}
		}
		if whole {
			continue
		}
		r := s.fresh("fr", SInt)
		conds := []T{Ge(r, I(1)), Le(r, top0)}
		var elemConds []T
		for _, l := range allowed[n] {
			if len(l.idx) == 0 {
				conds = append(conds, Not(Eq(r, l.ref)))
			} else {
				elemConds = append(elemConds, And(Eq(r, l.ref))) // handled below
			}
		}
		if len(elemConds) == 0 {
			conj = append(conj, Imp(And(conds...), Eq(Select(cur, r), Select(init, r))))
		} else {
			// element-level permissions: compare inner arrays pointwise at a skolem index
			k := s.fresh("fk", SInt)
			var ex []T
			for _, l := range allowed[n] {
				if len(l.idx) == 1 {
					ex = append(ex, And(Eq(r, l.ref), Eq(k, l.idx[0])))
				}
			}
			conj = append(conj, Imp(And(append(conds, Not(Or(ex...)))...), Eq(Select(Select(cur, r), k), Select(Select(init, r), k))))
		}
		srcs = append(srcs, n)
	}
	if len(conj) == 0 {
		return
	}
	for i := range conj {
		s.addObl(&Obligation{Name: fmt.Sprintf("%s/frame.%s", short, frameLabel(srcs[i])), Kind: "frame", Func: short, Src: "only locations in `modifies` change: heap " + srcs[i], Guard: out.Reach, Formula: conj[i]})
	}
}

func frameLabel(heap string) string {
	parts := strings.SplitN(heap, ":", 3)
	if len(parts) == 3 {
		t := parts[1]
		if i := strings.LastIndex(t, "/"); i >= 0 {
			t = t[i+1:]
		}
		return parts[0] + ":" + t + parts[2]
	}
	return heap
}

// ---- lemmas ----

func (e *Engine) verifyLemma(l *Lemma) *FuncReport {
	s := newSession(e, "lemma:"+l.Name)
	rep := &FuncReport{Key: "lemma::" + l.Name, Session: s}
	defer func() {
		if r := recover(); r != nil {
			if se, ok := r.(specErr); ok {
				rep.Err = se.msg
			} else {
				rep.Err = fmt.Sprint(r)
			}
		}
	}()
	pkg := e.typesPkg(l.Pkg)
	vars := map[string]Val{}
	st := &State{Reach: TTrue, Heap: map[string]T{}, Sorts: map[string]string{}, Top: s.declConst("top0", SInt), Locks: map[string]bool{}}
	for _, p := range l.Params {
		t := s.resolveType(pkg, p.Type)
		v := Val{Typ: t}
		for _, lf := range shape(t) {
			c := s.declConst("l_"+p.Name+strings.ReplaceAll(lf.Path, ".", "_"), lf.Sort)
			v.L = append(v.L, c)
			s.inputs = append(s.inputs, namedTerm{p.Name + lf.Path, c})
		}
		if p.Type != "int" {
			s.assume(s.rangeFacts(v))
		}
		vars[p.Name] = v
	}
	se := &SpecEnv{sess: s, pkg: pkg, vars: vars, st: st, old: st}
	for _, h := range l.Hyps {
		s.assume(s.evalBool(se, h.E))
	}
	s.addObl(&Obligation{Name: "lemma:" + l.Name + "/vacuity", Kind: "vacuity", Func: "lemma:" + l.Name, Src: "hypotheses satisfiable", Guard: TTrue, Formula: TFalse})
	for i, c := range l.Concl {
		s.addObl(&Obligation{Name: fmt.Sprintf("lemma:%s/concl.%s", l.Name, clauseName(c, i)), Kind: "lemma", Func: "lemma:" + l.Name, Src: c.Src, Guard: TTrue, Formula: s.evalBool(se, c.E)})
	}
	return rep
}

var _ = types.Typ

// splitClause flattens top-level conjunctions so that every conjunct becomes its own obligation.
func splitClause(c Clause) []Clause {
	var out []Clause
	var rec func(e SExpr)
	rec = func(e SExpr) {
		if b, ok := e.(*SBin); ok && b.Op == "&&" {
			rec(b.L)
			rec(b.R)
			return
		}
		out = append(out, Clause{Label: c.Label, Src: c.Src, E: e})
	}
	rec(c.E)
	if len(out) == 1 {
		return []Clause{c}
	}
	for i := range out {
		base := c.Label
		out[i].Label = fmt.Sprintf("%s%c", base, 'a'+i)
		out[i].Src = fmt.Sprintf("conjunct %d of: %s", i+1, c.Src)
	}
	return out
}

func clauseNameSplit(orig Clause, i int, sub Clause, nsub int) string {
	if nsub == 1 {
		return clauseName(orig, i)
	}
	if orig.Label != "" {
		return sub.Label
	}
	return fmt.Sprintf("%d%s", i+1, sub.Label)
}
