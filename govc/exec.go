package main

import (
	"os"
	"fmt"
	"go/constant"
	"go/token"
	"go/types"
	"math/big"
	"sort"
	"strings"

	"golang.org/x/tools/go/ssa"
)

type deferRec struct {
	call  *ssa.CallCommon
	guard T
	instr ssa.Instruction
}

type retRec struct {
	reach T
	vals  []Val
	st    *State
}

type edgeRec struct {
	cond T
	st   *State
}

type Frame struct {
	sess     *Session
	fn       *ssa.Function
	vals     map[ssa.Value]Val
	params   []Val
	depth    int
	top      bool // function under verification (obligations for its loops/contract)
	contract *Contract
	old      *State // state at entry (for old())
	defers   []deferRec
	rets     []retRec
	edges    map[[2]int]*edgeRec
	stack    []*ssa.Function
	oblPfx   string
	callOrd  map[string]int
	env      map[string]Val // extra spec names
	loopOrd  map[*ssa.BasicBlock]int
	curBlock *ssa.BasicBlock
	guardAll T // reach of the inlining call site
	nSafety  map[string]int
	preVals  map[ssa.Value]Val
	locals   map[string][]localDef
	callSites map[ssa.Instruction]int
	vacDone  map[int]bool
	loops    []*loopCtx
	callResults map[string]Val
	curSite    string    // "Name#K" of the call being executed in the top frame
	curInstr   *ssa.Call // its instruction
	iters      map[string]iterInfo
	curMode    string // contract mode selected for the call being executed (`at F K mode M`)
	isoLoops   map[*ssa.BasicBlock][2]int // isolated loop header -> hidden assertion range
	loopFrames map[*ssa.BasicBlock]*loopFrame
	loopEntry  map[*ssa.BasicBlock]*State // state on entering a loop (before the head is havocked), for pre(E)
}

type loopFrame struct {
	allowed map[string][]modLoc
	top     T
	head    *State
}

const maxInlineDepth = 6

func (s *Session) funcKey(fn *ssa.Function) (pkg, key string) {
	if fn.Pkg != nil {
		return fn.Pkg.Pkg.Path(), fn.RelString(fn.Pkg.Pkg)
	}
	// methods of instantiated / wrapper funcs
	if fn.Object() != nil && fn.Object().Pkg() != nil {
		return fn.Object().Pkg().Path(), fn.RelString(fn.Object().Pkg())
	}
	return "", fn.String()
}

func (s *Session) contractFor(fn *ssa.Function) *Contract {
	p, k := s.funcKey(fn)
	return s.eng.db.Contracts[p+"::"+k]
}

// ---- block ordering ----

func rpo(fn *ssa.Function) []*ssa.BasicBlock {
	seen := map[*ssa.BasicBlock]bool{}
	var post []*ssa.BasicBlock
	var dfs func(b *ssa.BasicBlock)
	dfs = func(b *ssa.BasicBlock) {
		seen[b] = true
		for _, su := range b.Succs {
			if !seen[su] && !su.Dominates(b) {
				dfs(su)
			} else if !seen[su] && su.Dominates(b) {
				// back edge to unseen block cannot happen (dominator seen earlier)
			}
		}
		post = append(post, b)
	}
	dfs(fn.Blocks[0])
	for i, j := 0, len(post)-1; i < j; i, j = i+1, j-1 {
		post[i], post[j] = post[j], post[i]
	}
	return post
}

func isBackEdge(from, to *ssa.BasicBlock) bool { return to.Dominates(from) }

// loopBlocks returns the natural loop of header h (all blocks that can reach a back edge source without passing h).
func loopBlocks(h *ssa.BasicBlock) map[*ssa.BasicBlock]bool {
	in := map[*ssa.BasicBlock]bool{h: true}
	var work []*ssa.BasicBlock
	for _, p := range h.Preds {
		if isBackEdge(p, h) {
			if !in[p] {
				in[p] = true
				work = append(work, p)
			}
		}
	}
	for len(work) > 0 {
		b := work[len(work)-1]
		work = work[:len(work)-1]
		for _, p := range b.Preds {
			if !in[p] {
				in[p] = true
				work = append(work, p)
			}
		}
	}
	return in
}

// loopOrdinals numbers loop headers by source position of their first instruction.
func loopOrdinals(fn *ssa.Function) map[*ssa.BasicBlock]int {
	var hs []*ssa.BasicBlock
	for _, b := range fn.Blocks {
		for _, p := range b.Preds {
			if isBackEdge(p, b) {
				hs = append(hs, b)
				break
			}
		}
	}
	pos := func(b *ssa.BasicBlock) token.Pos {
		// position of the loop: smallest valid position among instructions of header and its loop body
		best := token.NoPos
		for bb := range loopBlocks(b) {
			for _, in := range bb.Instrs {
				if p := in.Pos(); p.IsValid() && (best == token.NoPos || p < best) {
					best = p
				}
			}
		}
		return best
	}
	sort.SliceStable(hs, func(i, j int) bool { return pos(hs[i]) < pos(hs[j]) })
	out := map[*ssa.BasicBlock]int{}
	for i, h := range hs {
		out[h] = i + 1
	}
	return out
}

// ---- function execution ----

// execBody symbolically executes fn from state st with the given parameter values.
// It returns the merged results and the merged exit state (nil if no return is reachable).
func (s *Session) execBody(fr *Frame, st *State) ([]Val, *State) {
	fn := fr.fn
	if len(fn.Blocks) == 0 {
		panic("execBody: no body for " + fn.String())
	}
	fr.vals = map[ssa.Value]Val{}
	for k, v := range fr.preVals {
		fr.vals[k] = v
	}
	fr.edges = map[[2]int]*edgeRec{}
	fr.callOrd = map[string]int{}
	fr.loopOrd = loopOrdinals(fn)
	if fr.nSafety == nil {
		fr.nSafety = map[string]int{}
	}
	for i, p := range fn.Params {
		fr.vals[p] = fr.params[i]
	}
	order := rpo(fn)
	s.runBlocks(fr, order, st)
	if len(fr.rets) == 0 {
		return nil, nil
	}
	conds := make([]T, len(fr.rets))
	sts := make([]*State, len(fr.rets))
	for i, r := range fr.rets {
		conds[i] = r.reach
		sts[i] = r.st
	}
	out := s.mergeStates(conds, sts)
	nres := len(fr.rets[0].vals)
	res := make([]Val, nres)
	for k := 0; k < nres; k++ {
		vs := make([]Val, len(fr.rets))
		for i, r := range fr.rets {
			vs[i] = r.vals[k]
		}
		res[k] = s.mergeVals(conds, vs)
	}
	return res, out
}

// runBlocks executes the given blocks (in reverse post-order). Loops whose trip count is statically known
// (range over a slice of known small length) are unrolled completely; all other loops are cut at their header.
func (s *Session) runBlocks(fr *Frame, order []*ssa.BasicBlock, st *State) {
	done := map[*ssa.BasicBlock]bool{}
	for _, b := range order {
		if done[b] {
			continue
		}
		fr.curBlock = b
		if n, ok := s.knownTripCount(fr, b); ok {
			lb := loopBlocks(b)
			s.unrollLoop(fr, b, lb, n, order)
			for x := range lb {
				done[x] = true
			}
			continue
		}
		var bst *State
		if b.Index == 0 && st != nil {
			bst = st
		} else {
			bst = s.enterBlock(fr, b)
			if bst == nil {
				continue // unreachable
			}
		}
		if fr.top && len(fr.isoLoops) > 0 {
			s.curSkip = nil
			s.curTag = 0
			for h, r := range fr.isoLoops {
				lb := loopBlocks(h)
				if lb[b] {
					s.curSkip = append(s.curSkip, r)
					if exitsOnlyFromHead(h, lb) && s.curTag == 0 {
						s.curTag = h.Index + 1
					}
				}
			}
		}
		s.runBlock(fr, b, bst)
		if fr.top {
			s.curSkip = nil
			s.curTag = 0
		}
	}
}

// exitsOnlyFromHead: every edge that leaves the loop starts at its header (no break / return inside the body), so
// the state after the loop is the head state and nothing assumed inside the body matters afterwards.
func exitsOnlyFromHead(h *ssa.BasicBlock, lb map[*ssa.BasicBlock]bool) bool {
	for b := range lb {
		if b == h {
			continue
		}
		if len(b.Succs) == 0 {
			return false
		}
		for _, su := range b.Succs {
			if !lb[su] {
				return false
			}
		}
	}
	return true
}

const maxUnroll = 8

// knownTripCount recognises `for i := range x` over a slice whose length is a numeral <= maxUnroll.
func (s *Session) knownTripCount(fr *Frame, h *ssa.BasicBlock) (int, bool) {
	hasBack := false
	for _, p := range h.Preds {
		if isBackEdge(p, h) {
			hasBack = true
		}
	}
	if !hasBack {
		return 0, false
	}
	if fr.top && fr.contract != nil && len(fr.contract.Loops[fr.loopOrd[h]]) > 0 {
		return 0, false // an invariant was given: use it
	}
	for _, in := range h.Instrs {
		ph, ok := in.(*ssa.Phi)
		if !ok {
			break
		}
		if ph.Comment != "rangeindex" {
			continue
		}
		for _, in2 := range h.Instrs {
			cmp, ok := in2.(*ssa.BinOp)
			if !ok || cmp.Op != token.LSS {
				continue
			}
			add, ok := cmp.X.(*ssa.BinOp)
			if !ok || add.Op != token.ADD || add.X != ssa.Value(ph) {
				continue
			}
			if _, known := fr.vals[cmp.Y]; !known {
				if _, isC := cmp.Y.(*ssa.Const); !isC {
					continue
				}
			}
			lim := s.valueOf(fr, cmp.Y).T0()
			if isNumeral(lim.S) && atoi(lim.S) <= maxUnroll {
				return atoi(lim.S), true
			}
		}
	}
	return 0, false
}

type backRec struct {
	cond T
	st   *State
	phis map[*ssa.Phi]Val
}
type exitRec struct {
	cond T
	st   *State
	snap map[ssa.Value]Val
}
type loopCtx struct {
	header *ssa.BasicBlock
	blocks map[*ssa.BasicBlock]bool
	backs  []backRec
	exits  map[[2]int][]exitRec
	live   []ssa.Value // values defined inside the loop that are used outside
}

func (s *Session) unrollLoop(fr *Frame, h *ssa.BasicBlock, lb map[*ssa.BasicBlock]bool, n int, order []*ssa.BasicBlock) {
	// blocks of the loop in RPO
	var body []*ssa.BasicBlock
	for _, b := range order {
		if lb[b] {
			body = append(body, b)
		}
	}
	ctx := &loopCtx{header: h, blocks: lb, exits: map[[2]int][]exitRec{}}
	for b := range lb {
		for _, in := range b.Instrs {
			v, ok := in.(ssa.Value)
			if !ok {
				continue
			}
			if refs := v.Referrers(); refs != nil {
				for _, r := range *refs {
					if !lb[r.Block()] {
						ctx.live = append(ctx.live, v)
						break
					}
				}
			}
		}
	}
	// entry
	var conds []T
	var sts []*State
	var predIdx []int
	for i, p := range h.Preds {
		if isBackEdge(p, h) {
			continue
		}
		if e := fr.edges[[2]int{p.Index, h.Index}]; e != nil {
			conds = append(conds, e.cond)
			sts = append(sts, e.st)
			predIdx = append(predIdx, i)
		}
	}
	if len(sts) == 0 {
		return
	}
	var phis []*ssa.Phi
	for _, in := range h.Instrs {
		if ph, ok := in.(*ssa.Phi); ok {
			phis = append(phis, ph)
		} else {
			break
		}
	}
	cur := s.mergeStates(conds, sts)
	phiVals := map[*ssa.Phi]Val{}
	for _, ph := range phis {
		vs := make([]Val, len(predIdx))
		for k, pi := range predIdx {
			vs[k] = s.valueOf(fr, ph.Edges[pi])
		}
		phiVals[ph] = s.mergeVals(conds, vs)
	}
	saved := fr.loops
	fr.loops = append(fr.loops, ctx)
	for iter := 0; iter <= n; iter++ {
		ctx.backs = nil
		// forget intra-loop edges of the previous iteration
		for k := range fr.edges {
			if lb[fr.fn.Blocks[k[0]]] && lb[fr.fn.Blocks[k[1]]] {
				delete(fr.edges, k)
			}
		}
		for _, ph := range phis {
			fr.vals[ph] = phiVals[ph]
		}
		inner := map[*ssa.BasicBlock]bool{}
		for _, b := range body {
			if inner[b] {
				continue
			}
			fr.curBlock = b
			if b == h {
				s.runBlock(fr, b, cur.clone())
				continue
			}
			if m, ok := s.knownTripCount(fr, b); ok {
				ilb := loopBlocks(b)
				s.unrollLoop(fr, b, ilb, m, body)
				for x := range ilb {
					inner[x] = true
				}
				continue
			}
			bst := s.enterBlock(fr, b)
			if bst == nil {
				continue
			}
			s.runBlock(fr, b, bst)
		}
		if len(ctx.backs) == 0 {
			break
		}
		bc := make([]T, len(ctx.backs))
		bs := make([]*State, len(ctx.backs))
		for i, r := range ctx.backs {
			bc[i], bs[i] = r.cond, r.st
		}
		if iter == n {
			// unwinding assertion: no further iteration is possible
			fr.nSafety["unwind"]++
			s.addObl(&Obligation{Name: fmt.Sprintf("%s/unwind@%s#%d", fr.oblPfx, fr.fn.Name(), fr.nSafety["unwind"]), Kind: "unwind", Func: fr.oblPfx,
				Src: fmt.Sprintf("loop over %d elements is completely unrolled", n), Guard: TTrue, Formula: Not(Or(bc...))})
			break
		}
		cur = s.mergeStates(bc, bs)
		for _, ph := range phis {
			vs := make([]Val, len(ctx.backs))
			for i, r := range ctx.backs {
				vs[i] = r.phis[ph]
			}
			phiVals[ph] = s.mergeVals(bc, vs)
		}
	}
	fr.loops = saved
	// publish exits
	var allConds []T
	var allSnaps []map[ssa.Value]Val
	keys := make([][2]int, 0, len(ctx.exits))
	for k := range ctx.exits {
		keys = append(keys, k)
	}
	sort.Slice(keys, func(i, j int) bool { return keys[i][0] < keys[j][0] || (keys[i][0] == keys[j][0] && keys[i][1] < keys[j][1]) })
	for _, k := range keys {
		recs := ctx.exits[k]
		cs := make([]T, len(recs))
		ss := make([]*State, len(recs))
		for i, r := range recs {
			cs[i], ss[i] = r.cond, r.st
			allConds = append(allConds, r.cond)
			allSnaps = append(allSnaps, r.snap)
		}
		m := s.mergeStates(cs, ss)
		s.setEdge(fr, fr.fn.Blocks[k[0]], fr.fn.Blocks[k[1]], m.Reach, m, 0)
	}
	if len(allConds) > 0 {
		for _, v := range ctx.live {
			vs := make([]Val, 0, len(allSnaps))
			cs := make([]T, 0, len(allSnaps))
			for i, sn := range allSnaps {
				if x, ok := sn[v]; ok {
					vs = append(vs, x)
					cs = append(cs, allConds[i])
				}
			}
			if len(vs) > 0 {
				fr.vals[v] = s.mergeVals(cs, vs)
			}
		}
	}
}

func (s *Session) enterBlock(fr *Frame, b *ssa.BasicBlock) *State {
	var conds []T
	var sts []*State
	var predIdx []int
	hasBack := false
	for i, p := range b.Preds {
		if isBackEdge(p, b) {
			hasBack = true
			continue
		}
		e := fr.edges[[2]int{p.Index, b.Index}]
		if e == nil {
			continue
		}
		if e.cond.S == "false" {
			continue // edge statically dead (constant branch condition): its values do not reach the phis
		}
		// a pred may appear twice (both branches to same block): distinguish by position
		conds = append(conds, e.cond)
		sts = append(sts, e.st)
		predIdx = append(predIdx, i)
	}
	if len(sts) == 0 {
		return nil
	}
	st := s.mergeStates(conds, sts)
	// phis
	var phis []*ssa.Phi
	for _, in := range b.Instrs {
		if ph, ok := in.(*ssa.Phi); ok {
			phis = append(phis, ph)
		} else {
			break
		}
	}
	entryVals := map[*ssa.Phi]Val{}
	for _, ph := range phis {
		vs := make([]Val, len(predIdx))
		for k, pi := range predIdx {
			vs[k] = s.valueOf(fr, ph.Edges[pi])
		}
		entryVals[ph] = s.mergeVals(conds, vs)
	}
	if !hasBack {
		for _, ph := range phis {
			fr.vals[ph] = entryVals[ph]
		}
		return st
	}
	// ---- loop header ----
	ord := fr.loopOrd[b]
	var invs []Clause
	if fr.contract != nil && fr.top {
		invs = fr.contract.Loops[ord]
	}
	// inv:entry
	for _, ph := range phis {
		fr.vals[ph] = entryVals[ph]
	}
	if fr.loopEntry == nil {
		fr.loopEntry = map[*ssa.BasicBlock]*State{}
	}
	fr.loopEntry[b] = st.clone()
	for i, inv := range invs {
		subs := splitClause(inv)
		for _, sub := range subs {
			f := s.evalGoalClauseAt(fr, sub, st, b, -1)
			s.addObl(&Obligation{Name: fmt.Sprintf("%s/inv#%d.%s:entry", fr.oblPfx, ord, clauseNameSplit(inv, i, sub, len(subs))), Kind: "inv:entry", Func: fr.oblPfx, Src: sub.Src, Guard: st.Reach, Formula: f})
		}
	}
	if fr.top && fr.contract != nil && fr.contract.LoopIso[ord] {
		if fr.isoLoops == nil {
			fr.isoLoops = map[*ssa.BasicBlock][2]int{}
		}
		fr.isoLoops[b] = [2]int{s.reqEnd, len(s.asserts)}
		s.note("loop %d of %s is verified in isolation: its body sees the requires, the loop frame and the invariants only", ord, fr.fn.String())
	}
	// havoc loop targets
	lb := loopBlocks(b)
	mods, all := s.modScan(fr, lb)
	if all {
		s.havocAll(st)
		s.note("loop %d of %s: body calls code with unknown effects; whole heap havocked at the loop head", ord, fr.fn.String())
	} else {
		names := make([]string, 0, len(mods))
		for n := range mods {
			names = append(names, n)
		}
		sort.Strings(names)
		topEntry := st.Top
		// user-declared loop frame: `loop N modifies items` (checked at every back edge)
		var lm map[string][]modLoc
		if fr.top && fr.contract != nil && len(fr.contract.LoopMod[ord]) > 0 {
			lm = map[string][]modLoc{}
			se := &SpecEnv{sess: s, pkg: fr.fn.Pkg.Pkg, vars: s.frameEnv(fr), st: st, old: fr.old, fr: fr}
			se.lookup = s.localLookup(fr, st, b)
			se.lookupLoc = s.localCellLocAt(fr, st, b, -1)
			for _, it := range fr.contract.LoopMod[ord] {
				locs, err := s.itemLocs(se, it)
				if err != nil {
					panic(fmt.Sprintf("%s: loop %d modifies %q: %v", fr.fn.String(), ord, it, err))
				}
				for _, l := range locs {
					lm[l.heap] = append(lm[l.heap], l)
				}
			}
			if fr.loopFrames == nil {
				fr.loopFrames = map[*ssa.BasicBlock]*loopFrame{}
			}
			fr.loopFrames[b] = &loopFrame{allowed: lm, top: topEntry}
		}
		for _, n := range names {
			if lm != nil {
				sortN := mods[n]
				if sortN == "?" {
					var ok bool
					if sortN, ok = st.Sorts[n]; !ok {
						continue
					}
				}
				before := s.heapGet(st, n, sortN)
				whole := false
				for _, l := range lm[n] {
					if l.whole {
						whole = true
					}
				}
				s.havocHeap(st, n, sortN)
				if !whole {
					after := st.Heap[n]
					s.nfresh++
					r := fmt.Sprintf("r!%d", s.nfresh)
					excl := ""
					for _, l := range lm[n] {
						excl += fmt.Sprintf(" (not (= %s %s))", r, l.ref.S)
					}
					bound := fmt.Sprintf("(<= %s %s)", r, topEntry.S)
					if strings.HasPrefix(n, "X:") {
						bound = "true" // ghost maps are not indexed by allocation order
					}
					ax := fmt.Sprintf("(forall ((%s Int)) (! (=> (and %s%s) (= (select %s %s) (select %s %s))) :pattern ((select %s %s))))", r, bound, excl, after.S, r, before.S, r, after.S, r)
					s.assume(T{ax, SBool})
				}
				continue
			}
			sortN := mods[n]
			if sortN == "?" {
				var ok bool
				if sortN, ok = st.Sorts[n]; !ok {
					continue
				}
			}
			before := s.heapGet(st, n, sortN)
			s.havocHeap(st, n, sortN)
			if n == "X:evlast" || n == "X:evres" || n == "X:evcount" {
				// only the events that can be raised inside the loop lose their recorded position / result
				after := st.Heap[n]
				s.nfresh++
				r := fmt.Sprintf("e!%d", s.nfresh)
				excl := ""
				for ev := range s.scanEvents {
					excl += fmt.Sprintf(" (not (= %s %s))", r, s.strLit(ev).S)
				}
				if n == "X:evres" {
					excl += fmt.Sprintf(" (not (= %s %s))", r, s.strLit("time.Now").S)
				}
				ax := fmt.Sprintf("(forall ((%s Int)) (! (=> (and true%s) (= (select %s %s) (select %s %s))) :pattern ((select %s %s))))", r, excl, after.S, r, before.S, r, after.S, r)
				s.assume(T{ax, SBool})
				continue
			}
			if !s.scanReal[n] {
				// only allocations touch this heap family inside the loop: objects that existed at loop entry are unchanged
				after := st.Heap[n]
				s.nfresh++
				r := fmt.Sprintf("r!%d", s.nfresh)
				excl := ""
				for _, rr := range s.scanRoots[n] {
					excl += fmt.Sprintf(" (not (= %s %s))", r, rr.S)
				}
				ax := fmt.Sprintf("(forall ((%s Int)) (! (=> (and (<= %s %s)%s) (= (select %s %s) (select %s %s))) :pattern ((select %s %s))))", r, r, topEntry.S, excl, after.S, r, before.S, r, after.S, r)
				s.assume(T{ax, SBool})
			}
		}
		if len(names) > 0 {
			st.Top = s.fresh("top", SInt)
			s.assume(Ge(st.Top, topEntry))
		}
	}
	s.havocVisitGhosts(fr, lb, st)
	if lf := fr.loopFrames[b]; lf != nil {
		lf.head = st.clone()
	}
	for _, ph := range phis {
		hv := s.opaqueVal(ph.Type(), "loop_"+ph.Comment)
		fr.vals[ph] = hv
		s.assume(Imp(st.Reach, And(s.rangeFacts(hv), s.refFacts(st, hv))))
	}
	// structural fact of `for i := range x` lowering: -1 <= rangeindex < len(x) at the loop head
	for _, ph := range phis {
		if ph.Comment != "rangeindex" {
			continue
		}
		for _, in := range b.Instrs {
			cmp, ok := in.(*ssa.BinOp)
			if !ok || cmp.Op != token.LSS {
				continue
			}
			add, ok := cmp.X.(*ssa.BinOp)
			if !ok || add.Op != token.ADD || add.X != ssa.Value(ph) {
				continue
			}
			if _, known := fr.vals[cmp.Y]; !known {
				if _, isC := cmp.Y.(*ssa.Const); !isC {
					continue
				}
			}
			lim := s.valueOf(fr, cmp.Y).T0()
			s.assume(Imp(st.Reach, And(Le(I(-1), fr.vals[ph].T0()), Lt(fr.vals[ph].T0(), Ite(Gt(lim, I(0)), lim, I(0))))))
		}
	}
	for _, inv := range invs {
		f := s.evalBoolClause(fr, inv, st, b)
		so := s.curOrigin
		s.curOrigin = fmt.Sprintf("inv#%d", ord)
		s.assume(Imp(st.Reach, f))
		s.curOrigin = so
	}
	if fr.contract != nil && fr.top {
		for _, as := range fr.contract.LoopAssume[ord] {
			f := s.evalBoolClause(fr, as, st, b)
			s.assume(Imp(st.Reach, f))
			s.note("ASSUMED (not proved) at loop %d of %s: %s", ord, fr.fn.String(), as.Src)
		}
	}
	return st
}

func clauseName(c Clause, i int) string {
	if c.Label != "" {
		return c.Label
	}
	return fmt.Sprintf("%d", i+1)
}

func (s *Session) runBlock(fr *Frame, b *ssa.BasicBlock, st *State) {
	for _, in := range b.Instrs {
		if _, ok := in.(*ssa.Phi); ok {
			continue
		}
		switch x := in.(type) {
		case *ssa.If:
			c := s.valueOf(fr, x.Cond).T0()
			c = s.define("c", c)
			s.setEdge(fr, b, b.Succs[0], And(st.Reach, c), st, 0)
			s.setEdge(fr, b, b.Succs[1], And(st.Reach, Not(c)), st, 1)
			return
		case *ssa.Jump:
			s.setEdge(fr, b, b.Succs[0], st.Reach, st, 0)
			return
		case *ssa.Return:
			vals := make([]Val, len(x.Results))
			for i, r := range x.Results {
				vals[i] = s.valueOf(fr, r)
			}
			fr.rets = append(fr.rets, retRec{st.Reach, vals, st})
			return
		case *ssa.Panic:
			if fr.top && fr.contract != nil && fr.contract.Options["nopanic"] != "" {
				s.addObl(&Obligation{Name: fr.oblPfx + "/safety:panic", Kind: "safety", Func: fr.oblPfx, Src: "explicit panic unreachable", Guard: st.Reach, Formula: TFalse})
			}
			return
		default:
			s.step(fr, in, st)
		}
	}
}

func (s *Session) setEdge(fr *Frame, from, to *ssa.BasicBlock, cond T, st *State, succIdx int) {
	if n := len(fr.loops); n > 0 {
		ctx := fr.loops[n-1]
		if ctx.blocks[from] && to == ctx.header {
			// back edge of a loop being unrolled
			rec := backRec{cond: s.define("back", cond), st: st.clone(), phis: map[*ssa.Phi]Val{}}
			predIdx := -1
			for i, p := range to.Preds {
				if p == from {
					predIdx = i
				}
			}
			for _, in := range to.Instrs {
				ph, ok := in.(*ssa.Phi)
				if !ok {
					break
				}
				rec.phis[ph] = s.valueOf(fr, ph.Edges[predIdx])
			}
			rec.st.Reach = rec.cond
			ctx.backs = append(ctx.backs, rec)
			return
		}
		if ctx.blocks[from] && !ctx.blocks[to] {
			rec := exitRec{cond: s.define("exit", cond), st: st.clone(), snap: map[ssa.Value]Val{}}
			rec.st.Reach = rec.cond
			for _, v := range ctx.live {
				if x, ok := fr.vals[v]; ok {
					rec.snap[v] = x
				}
			}
			k := [2]int{from.Index, to.Index}
			ctx.exits[k] = append(ctx.exits[k], rec)
			return
		}
	}
	if isBackEdge(from, to) {
		// inv:step obligations
		ord := fr.loopOrd[to]
		if lf := fr.loopFrames[to]; lf != nil && lf.head != nil {
			s.loopFrameObligations(fr, lf, st, cond, ord)
		}
		if fr.contract != nil && fr.top {
			invs := fr.contract.Loops[ord]
			if len(invs) > 0 {
				// bind header phis to the values flowing along this edge
				saved := map[ssa.Value]Val{}
				predIdx := -1
				for i, p := range to.Preds {
					if p == from {
						predIdx = i
					}
				}
				for _, in := range to.Instrs {
					ph, ok := in.(*ssa.Phi)
					if !ok {
						break
					}
					saved[ph] = fr.vals[ph]
				}
				newv := map[ssa.Value]Val{}
				for ph := range saved {
					newv[ph] = s.valueOf(fr, ph.(*ssa.Phi).Edges[predIdx])
				}
				for ph, v := range newv {
					fr.vals[ph] = v
				}
				for i, inv := range invs {
					subs := splitClause(inv)
					for _, sub := range subs {
						f := s.evalGoalClauseAt(fr, sub, st, to, -1)
						s.addObl(&Obligation{Name: fmt.Sprintf("%s/inv#%d.%s:step", fr.oblPfx, ord, clauseNameSplit(inv, i, sub, len(subs))), Kind: "inv:step", Func: fr.oblPfx, Src: sub.Src, Guard: cond, Formula: f, Using: inv.Using})
					}
				}
				for ph, v := range saved {
					fr.vals[ph] = v
				}
			}
		}
		return
	}
	key := [2]int{from.Index, to.Index}
	c := s.define("edge", cond)
	if e, dup := fr.edges[key]; dup {
		// both branch targets identical: merge conditions
		e.cond = s.define("edge", Or(e.cond, c))
		return
	}
	ns := st.clone()
	ns.Reach = c
	fr.edges[key] = &edgeRec{cond: c, st: ns}
}

// ---- values ----

func (s *Session) valueOf(fr *Frame, v ssa.Value) Val {
	if x, ok := fr.vals[v]; ok {
		return x
	}
	switch c := v.(type) {
	case *ssa.Const:
		return s.constVal(c)
	case *ssa.Global:
		return Val{Typ: c.Type(), Loc: &Loc{Kind: "G", TypeKey: c.Pkg.Pkg.Path() + "." + c.Name(), Ref: I(0), Typ: c.Type().(*types.Pointer).Elem()}}
	case *ssa.Function:
		return Val{Typ: c.Type(), Fn: c}
	case *ssa.Builtin:
		return Val{Typ: c.Type()}
	case *ssa.FreeVar:
		panic("free var without binding: " + c.Name())
	}
	// value defined in a block not executed (unreachable) or after a cut
	ov := s.opaqueVal(v.Type(), "undef_"+v.Name())
	fr.vals[v] = ov
	return ov
}

func (s *Session) constVal(c *ssa.Const) Val {
	t := c.Type()
	if c.Value == nil {
		return zeroVal(t)
	}
	switch c.Value.Kind() {
	case constant.Bool:
		return scalar(t, B(constant.BoolVal(c.Value)))
	case constant.String:
		return scalar(t, s.strLit(constant.StringVal(c.Value)))
	case constant.Int:
		if isFloat(t) {
			return scalar(t, T{c.Value.ExactString() + ".0", "Real"})
		}
		return scalar(t, IStr(c.Value.ExactString()))
	case constant.Float:
		if isFloat(t) {
			return scalar(t, realConst(c.Value))
		}
		if i, ok := constant.Int64Val(constant.ToInt(c.Value)); ok {
			return scalar(t, I(i))
		}
	}
	return s.opaqueVal(t, "const")
}

func realConst(v constant.Value) T {
	r, ok := new(big.Rat).SetString(v.ExactString())
	if !ok {
		f, _ := constant.Float64Val(v)
		r = new(big.Rat).SetFloat64(f)
	}
	neg := r.Sign() < 0
	if neg {
		r = new(big.Rat).Neg(r)
	}
	s := fmt.Sprintf("(/ %s.0 %s.0)", r.Num().String(), r.Denom().String())
	if neg {
		s = "(- " + s + ")"
	}
	return T{s, "Real"}
}

func (s *Session) setVal(fr *Frame, v ssa.Value, x Val) {
	if x.Loc == nil && x.Clo == nil && x.Fn == nil && x.Tup == nil {
		for i := range x.L {
			x.L[i] = s.define(fr.fn.Name()+"_"+v.Name(), x.L[i])
		}
	}
	fr.vals[v] = x
}

// toLoc converts a pointer value into a location for load/store.
func (s *Session) toLoc(v Val) *Loc {
	if v.Loc != nil {
		return v.Loc
	}
	pt, ok := v.Typ.Underlying().(*types.Pointer)
	if !ok {
		panic(fmt.Sprintf("toLoc: not a pointer: %v", v.Typ))
	}
	elem := pt.Elem()
	kind := "P"
	if _, isStruct := elem.Underlying().(*types.Struct); isStruct {
		kind = "F"
	}
	return &Loc{Kind: kind, TypeKey: typeKey(elem), Ref: v.T0(), Typ: elem}
}

func (s *Session) safety(fr *Frame, st *State, kind string, cond T, what string) {
	if !s.eng.safetyOn(fr) {
		return
	}
	// panics inside inlined helpers belong to the helper's own contract (if it has one); only the function under
	// contract itself gets bounds / division / assertion obligations (model-size bounds are always checked)
	if !fr.top && kind != "txnsize" {
		return
	}
	// `option nosafety`: panic-freedom of this function is not claimed (partial correctness: a run that panics does
	// not return, so the condition may be assumed afterwards); recorded as an assumption in the evidence
	if fr.contract != nil && fr.contract.Options["nosafety"] != "" && kind != "txnsize" {
		if fr.nSafety["_noted"] == 0 {
			fr.nSafety["_noted"] = 1
			s.note("ASSUMED in %s: option nosafety - bounds / nil / type-assertion panics are not checked here (partial correctness)", fr.fn.String())
		}
		return
	}
	fr.nSafety[kind]++
	name := fmt.Sprintf("%s/safety:%s#%d", fr.oblPfx, kind, fr.nSafety[kind])
	if !fr.top {
		name = fmt.Sprintf("%s/safety:%s@%s#%d", fr.oblPfx, kind, fr.fn.Name(), fr.nSafety[kind])
	}
	s.addObl(&Obligation{Name: name, Kind: "safety", Func: fr.oblPfx, Src: what, Guard: st.Reach, Formula: cond})
}

func (s *Session) alloc(st *State, t types.Type) *Loc {
	ref := s.define("ref", Add(st.Top, I(1)))
	st.Top = ref
	kind := "P"
	if _, isStruct := t.Underlying().(*types.Struct); isStruct {
		kind = "F"
	}
	return &Loc{Kind: kind, TypeKey: typeKey(t), Ref: ref, Typ: t}
}

func (s *Session) newRef(st *State) T {
	ref := s.define("ref", Add(st.Top, I(1)))
	st.Top = ref
	return ref
}

func (s *Session) step(fr *Frame, in ssa.Instruction, st *State) {
	switch x := in.(type) {
	case *ssa.DebugRef:
		return
	case *ssa.Alloc:
		t := x.Type().(*types.Pointer).Elem()
		loc := s.alloc(st, t)
		s.store(st, loc, zeroVal(t))
		fr.vals[x] = Val{Typ: x.Type(), Loc: loc}
	case *ssa.FieldAddr:
		base := s.valueOf(fr, x.X)
		loc := s.toLoc(base)
		stt := loc.Typ.Underlying().(*types.Struct)
		f := stt.Field(x.Field)
		nl := *loc
		nl.Path = loc.Path + "." + f.Name()
		nl.Typ = f.Type()
		fr.vals[x] = Val{Typ: x.Type(), Loc: &nl}
	case *ssa.Field:
		sv := s.valueOf(fr, x.X)
		fr.vals[x] = fieldVal(sv, x.Field)
	case *ssa.IndexAddr:
		base := s.valueOf(fr, x.X)
		idx := s.valueOf(fr, x.Index).T0()
		switch bt := x.X.Type().Underlying().(type) {
		case *types.Slice:
			s.safety(fr, st, "index", And(Le(I(0), idx), Lt(idx, base.L[2])), "index in range of slice "+x.X.Name())
			off := idx
			if base.L[1].S != "0" {
				off = s.sidx(base.L[1], idx)
			}
			fr.vals[x] = Val{Typ: x.Type(), Loc: &Loc{Kind: "A", TypeKey: typeKey(bt.Elem()), Ref: base.L[0], Idx: []T{off}, Typ: bt.Elem()}}
		case *types.Pointer:
			at := bt.Elem().Underlying().(*types.Array)
			s.safety(fr, st, "index", And(Le(I(0), idx), Lt(idx, I(at.Len()))), "index in range of array")
			loc := s.toLoc(base)
			nl := *loc
			nl.Path = loc.Path + "[]"
			nl.Idx = append(append([]T(nil), loc.Idx...), idx)
			nl.Typ = at.Elem()
			fr.vals[x] = Val{Typ: x.Type(), Loc: &nl}
		default:
			panic("IndexAddr on " + x.X.Type().String())
		}
	case *ssa.Index:
		base := s.valueOf(fr, x.X)
		idx := s.valueOf(fr, x.Index).T0()
		switch bt := x.X.Type().Underlying().(type) {
		case *types.Array:
			s.safety(fr, st, "index", And(Le(I(0), idx), Lt(idx, I(bt.Len()))), "index in range of array")
			v := Val{Typ: bt.Elem()}
			for _, l := range base.L {
				v.L = append(v.L, Select(l, idx))
			}
			s.setVal(fr, x, v)
		default: // string index
			s.safety(fr, st, "index", And(Le(I(0), idx), Lt(idx, s.strlen(base.T0()))), "index in range of string")
			s.setVal(fr, x, scalar(x.Type(), s.uf("strat", SInt, base.T0(), idx)))
			s.assume(And(Le(I(0), fr.vals[x].T0()), Le(fr.vals[x].T0(), I(255))))
		}
	case *ssa.UnOp:
		s.unop(fr, x, st)
	case *ssa.BinOp:
		a, b := s.valueOf(fr, x.X), s.valueOf(fr, x.Y)
		s.setVal(fr, x, s.binop(fr, st, x.Op, a, b, x.X.Type(), x.Type()))
	case *ssa.Store:
		addr := s.valueOf(fr, x.Addr)
		val := s.valueOf(fr, x.Val)
		s.store(st, s.toLoc(addr), s.materializeFor(val))
		// a function value kept in a local cell (a captured `f func(..)` parameter) survives the trip through the heap
		if al, ok := x.Addr.(*ssa.Alloc); ok && al.Heap {
			if l := s.toLoc(addr); l.Kind == "P" && l.Path == "" && len(l.Idx) == 0 {
				if s.fnCells == nil {
					s.fnCells = map[string]Val{}
				}
				if val.Clo != nil || val.Fn != nil {
					s.fnCells[l.Ref.S] = val
				} else {
					delete(s.fnCells, l.Ref.S)
				}
			}
		}
		// elements of compiler-generated literal arrays (variadic arguments, slice literals) are remembered
		// symbolically so that function values and other non-scalar elements survive the trip through the heap
		if ia, ok := x.Addr.(*ssa.IndexAddr); ok {
			if al, ok2 := ia.X.(*ssa.Alloc); ok2 && (al.Comment == "varargs" || al.Comment == "slicelit") && addr.Loc != nil && len(addr.Loc.Idx) == 1 && isNumeral(addr.Loc.Idx[0].S) {
				key := addr.Loc.Ref.S
				if s.litCells[key] == nil {
					s.litCells[key] = map[int]Val{}
				}
				s.litCells[key][atoi(addr.Loc.Idx[0].S)] = val
			}
		}
	case *ssa.Convert:
		s.setVal(fr, x, s.convert(fr, st, s.valueOf(fr, x.X), x.X.Type(), x.Type()))
	case *ssa.ChangeType:
		v := s.valueOf(fr, x.X)
		v.Typ = x.Type()
		fr.vals[x] = v
	case *ssa.ChangeInterface:
		v := s.valueOf(fr, x.X)
		v.Typ = x.Type()
		fr.vals[x] = v
	case *ssa.MakeInterface:
		fr.vals[x] = s.makeInterface(st, s.valueOf(fr, x.X), x.X.Type(), x.Type())
		if s.topContract != nil && len(s.topContract.Dispatch) > 0 {
			s.dispatchFacts(fr, st, fr.vals[x], x.X.Type(), x.Type())
		}
	case *ssa.TypeAssert:
		s.typeAssert(fr, x, st)
	case *ssa.Extract:
		tv := s.valueOf(fr, x.Tuple)
		fr.vals[x] = tv.Tup[x.Index]
	case *ssa.MakeSlice:
		et := x.Type().Underlying().(*types.Slice).Elem()
		ln := s.valueOf(fr, x.Len).T0()
		ptr := s.newRef(st)
		// zero contents
		eloc := &Loc{Kind: "A", TypeKey: typeKey(et), Ref: ptr, Typ: et}
		names, sorts, leaves := locHeaps(eloc)
		for i, l := range leaves {
			h := s.heapGet(st, names[i], sorts[i])
			st.Heap[names[i]] = s.define("H", Store(h, ptr, zeroOfSort(arrSort(l.Sort))))
		}
		fr.vals[x] = Val{Typ: x.Type(), L: []T{ptr, I(0), ln}}
	case *ssa.Slice:
		s.sliceOp(fr, x, st)
	case *ssa.MakeMap:
		ref := s.newRef(st)
		mt := x.Type().Underlying().(*types.Map)
		mk := typeKey(x.Type().Underlying())
		dom := s.heapGet(st, heapName("M", mk, "dom"), arrSort(arrSort(SBool)))
		st.Heap[heapName("M", mk, "dom")] = s.define("H", Store(dom, ref, zeroOfSort(arrSort(SBool))))
		card := s.heapGet(st, heapName("M", mk, "card"), arrSort(SInt))
		st.Heap[heapName("M", mk, "card")] = s.define("H", Store(card, ref, I(0)))
		_ = mt
		fr.vals[x] = scalar(x.Type(), ref)
	case *ssa.MapUpdate:
		s.mapUpdate(fr, x, st)
	case *ssa.Lookup:
		s.lookup(fr, x, st)
	case *ssa.Range:
		fr.vals[x] = Val{Typ: x.Type(), L: []T{s.fresh("iter", SInt)}, Tup: nil}
		s.rangeSrc(fr)[x] = x.X
		if mt, isMap := x.X.Type().Underlying().(*types.Map); isMap {
			s.mapRangeStart(fr, x, mt, st)
		}
	case *ssa.Next:
		s.next(fr, x, st)
	case *ssa.MakeClosure:
		c := &Closure{Fn: x.Fn.(*ssa.Function)}
		for _, b := range x.Bindings {
			c.Bindings = append(c.Bindings, s.valueOf(fr, b))
		}
		fr.vals[x] = Val{Typ: x.Type(), Clo: c}
	case *ssa.Call:
		res := s.call(fr, &x.Call, st, x)
		if res.Typ == nil {
			res.Typ = x.Type()
		}
		fr.vals[x] = res
	case *ssa.Defer:
		fr.defers = append(fr.defers, deferRec{call: &x.Call, guard: st.Reach, instr: x})
	case *ssa.RunDefers:
		for i := len(fr.defers) - 1; i >= 0; i-- {
			d := fr.defers[i]
			// executed only if the defer statement was reached on this path
			blk := d.instr.Block()
			if blk.Dominates(fr.curBlock) {
				s.call(fr, d.call, st, nil)
			} else {
				alt := st.clone()
				alt.Reach = And(st.Reach, d.guard)
				s.call(fr, d.call, alt, nil)
				m := s.mergeStates([]T{And(st.Reach, d.guard), And(st.Reach, Not(d.guard))}, []*State{alt, st})
				reach := st.Reach
				*st = *m
				st.Reach = reach
			}
		}
	case *ssa.Go:
		s.note("go statement in %s: spawned activity not executed", fr.fn.String())
	case *ssa.Send:
		s.note("channel send in %s ignored", fr.fn.String())
	case *ssa.Select:
		s.note("select in %s: nondeterministic", fr.fn.String())
		fr.vals[x] = s.opaqueVal(x.Type(), "select")
		s.assumeRange(st, fr.vals[x])
	case *ssa.MakeChan:
		fr.vals[x] = scalar(x.Type(), s.newRef(st))
	case *ssa.SliceToArrayPointer, *ssa.MultiConvert:
		fr.vals[x.(ssa.Value)] = s.opaqueVal(x.(ssa.Value).Type(), "conv")
	default:
		panic(fmt.Sprintf("unsupported instruction %T: %v", in, in))
	}
}

// materializeFor prepares a value for storing in the heap (static pointers become Ints).
func (s *Session) materializeFor(v Val) Val {
	if v.Loc != nil || v.Clo != nil || v.Fn != nil {
		return s.materialize(v)
	}
	return v
}

func (s *Session) rangeSrc(fr *Frame) map[ssa.Value]ssa.Value {
	if fr.env == nil {
		fr.env = map[string]Val{}
	}
	if rangeSrcs[fr] == nil {
		rangeSrcs[fr] = map[ssa.Value]ssa.Value{}
	}
	return rangeSrcs[fr]
}

var rangeSrcs = map[*Frame]map[ssa.Value]ssa.Value{}

func (s *Session) unop(fr *Frame, x *ssa.UnOp, st *State) {
	v := s.valueOf(fr, x.X)
	switch x.Op {
	case token.MUL: // load
		loc := s.toLoc(v)
		if os.Getenv("GOVC_DEBUG") != "" && loc.Kind == "A" {
			_, has := s.litSlices[loc.Ref.S]
			fmt.Fprintf(os.Stderr, "load A ref=%s idx=%v lit=%v\n", loc.Ref.S, loc.Idx, has)
		}
		if loc.Kind == "A" && len(loc.Idx) == 1 && isNumeral(loc.Idx[0].S) {
			if cells, ok := s.litSlices[loc.Ref.S]; ok {
				if cv, ok2 := cells[atoi(loc.Idx[0].S)]; ok2 && (cv.Clo != nil || cv.Fn != nil) {
					fr.vals[x] = cv
					return
				}
			}
		}
		if loc.Kind == "P" && loc.Path == "" && len(loc.Idx) == 0 {
			if _, isSig := x.Type().Underlying().(*types.Signature); isSig {
				if cv, ok := s.fnCells[loc.Ref.S]; ok {
					fr.vals[x] = cv
					return
				}
			}
		}
		lv := s.load(st, loc)
		lv.Typ = x.Type()
		for i := range lv.L {
			lv.L[i] = s.define(fr.fn.Name()+"_"+x.Name(), lv.L[i])
		}
		s.assume(Imp(st.Reach, And(s.rangeFacts(lv), s.refFacts(st, lv))))
		fr.vals[x] = lv
	case token.NOT:
		s.setVal(fr, x, scalar(x.Type(), Not(v.T0())))
	case token.SUB:
		if isFloat(x.Type()) {
			s.setVal(fr, x, scalar(x.Type(), app("Real", "-", v.T0())))
		} else {
			s.setVal(fr, x, scalar(x.Type(), s.wrap(Neg(v.T0()), x.Type())))
		}
	case token.XOR:
		// ^x = -x-1 for signed; 2^n-1-x for unsigned
		_, hi, _, signed, ok := intRange(x.Type())
		if ok && !signed {
			s.setVal(fr, x, scalar(x.Type(), Sub(bigT(hi), v.T0())))
		} else {
			s.setVal(fr, x, scalar(x.Type(), Sub(Neg(v.T0()), I(1))))
		}
	case token.ARROW:
		s.note("channel receive in %s: arbitrary value", fr.fn.String())
		ov := s.opaqueVal(x.Type(), "recv")
		s.assumeRange(st, ov)
		fr.vals[x] = ov
	default:
		panic("unop " + x.Op.String())
	}
}

// wrap reduces a mathematical integer to the range of fixed-width type t (two's complement).
func (s *Session) wrap(x T, t types.Type) T {
	lo, hi, bits, signed, ok := intRange(t)
	if !ok {
		return x
	}
	if v, isNum := numVal(x); isNum && v.Cmp(lo) >= 0 && v.Cmp(hi) <= 0 {
		return x
	}
	m := bigT(pow2big(bits))
	x = s.define("w", x)
	// one correction step: exact for +, - and negation of in-range operands (wrapFull handles * and <<)
	if signed {
		return Ite(Gt(x, bigT(hi)), Sub(x, m), Ite(Lt(x, bigT(lo)), Add(x, m), x))
	}
	return Ite(Gt(x, bigT(hi)), Sub(x, m), Ite(Lt(x, I(0)), Add(x, m), x))
}

func (s *Session) wrapFull(x T, t types.Type) T {
	_, hi, bits, signed, ok := intRange(t)
	if !ok {
		return x
	}
	m := bigT(pow2big(bits))
	if signed {
		half := bigT(pow2big(bits - 1))
		_ = hi
		return Sub(app(SInt, "mod", Add(x, half), m), half)
	}
	return app(SInt, "mod", x, m)
}

func (s *Session) binop(fr *Frame, st *State, op token.Token, a, b Val, opndT, resT types.Type) Val {
	// comparisons
	switch op {
	case token.EQL, token.NEQ:
		eq := s.valEq(a, b)
		if op == token.NEQ {
			eq = Not(eq)
		}
		return scalar(resT, eq)
	}
	if isStringT(opndT) {
		x, y := a.T0(), b.T0()
		switch op {
		case token.ADD:
			r := s.uf("strcat", SInt, x, y)
			s.assume(Eq(s.strlen(r), Add(s.strlen(x), s.strlen(y))))
			// left cancellation: what remains of x+y after dropping len(x) characters is y
			s.assume(Eq(s.uf("strdrop", SInt, r, s.strlen(x)), y))
			s.assume(Ge(r, I(0)))
			s.assume(Eq(Eq(r, I(0)), And(Eq(x, I(0)), Eq(y, I(0)))))
			return scalar(resT, r)
		case token.LSS, token.GTR, token.LEQ, token.GEQ:
			// the string order is a strict total order: irreflexive, asymmetric, total on distinct strings
			lt, gt := s.uf("strlt", SBool, x, y), s.uf("strlt", SBool, y, x)
			s.assume(And(Not(And(lt, gt)), Imp(Eq(x, y), And(Not(lt), Not(gt))), Imp(Not(Eq(x, y)), Or(lt, gt))))
			switch op {
			case token.LSS:
				return scalar(resT, lt)
			case token.GTR:
				return scalar(resT, gt)
			case token.LEQ:
				return scalar(resT, Not(gt))
			default:
				return scalar(resT, Not(lt))
			}
		}
	}
	if isFloat(opndT) {
		x, y := a.T0(), b.T0()
		switch op {
		case token.ADD:
			return scalar(resT, app("Real", "+", x, y))
		case token.SUB:
			return scalar(resT, app("Real", "-", x, y))
		case token.MUL:
			return scalar(resT, app("Real", "*", x, y))
		case token.QUO:
			return scalar(resT, app("Real", "/", x, y))
		case token.LSS:
			return scalar(resT, Lt(x, y))
		case token.LEQ:
			return scalar(resT, Le(x, y))
		case token.GTR:
			return scalar(resT, Gt(x, y))
		case token.GEQ:
			return scalar(resT, Ge(x, y))
		}
		panic("float binop " + op.String())
	}
	if isBoolT(opndT) {
		x, y := a.T0(), b.T0()
		switch op {
		case token.AND, token.LAND:
			return scalar(resT, And(x, y))
		case token.OR, token.LOR:
			return scalar(resT, Or(x, y))
		}
	}
	x, y := a.T0(), b.T0()
	switch op {
	case token.LSS:
		return scalar(resT, Lt(x, y))
	case token.LEQ:
		return scalar(resT, Le(x, y))
	case token.GTR:
		return scalar(resT, Gt(x, y))
	case token.GEQ:
		return scalar(resT, Ge(x, y))
	case token.ADD:
		return scalar(resT, s.wrap(Add(x, y), resT))
	case token.SUB:
		return scalar(resT, s.wrap(Sub(x, y), resT))
	case token.MUL:
		return scalar(resT, s.wrapFull(Mul(x, y), resT))
	case token.QUO:
		s.safety(fr, st, "div0", Not(Eq(y, I(0))), "division by zero")
		return scalar(resT, s.wrap(s.truncDiv(x, y, resT), resT))
	case token.REM:
		s.safety(fr, st, "div0", Not(Eq(y, I(0))), "division by zero (remainder)")
		return scalar(resT, s.rem(x, y, resT))
	case token.SHL:
		var p T
		if isNumeral(y.S) {
			p = bigT(pow2big(atoi(y.S)))
			s.shiftKs[atoi(y.S)] = true
		} else {
			p = app(SInt, "pow2", y)
		}
		return scalar(resT, s.wrapFull(Mul(x, p), resT))
	case token.SHR:
		var p T
		if isNumeral(y.S) {
			p = bigT(pow2big(atoi(y.S)))
		} else {
			p = app(SInt, "pow2", y)
		}
		return scalar(resT, app(SInt, "div", x, p))
	case token.AND:
		// x & (2^k - 1)
		if k, ok := maskBits(y.S); ok {
			return scalar(resT, s.lowBits(x, k, resT))
		}
		if k, ok := maskBits(x.S); ok {
			return scalar(resT, s.lowBits(y, k, resT))
		}
		r := s.uf("bitand", SInt, x, y)
		s.assume(s.rangeFacts(scalar(resT, r)))
		return scalar(resT, r)
	case token.OR:
		r := s.uf("bitor", SInt, x, y)
		// sound facts about | on non-negative operands
		s.assume(Imp(And(Ge(x, I(0)), Ge(y, I(0))), And(Ge(r, x), Ge(r, y), Le(r, Add(x, y)))))
		s.assume(s.rangeFacts(scalar(resT, r)))
		for _, k := range s.seenShiftKs() {
			m := bigT(pow2big(k))
			s.assume(Imp(And(Eq(app(SInt, "mod", x, m), I(0)), Le(I(0), y), Lt(y, m)), Eq(r, Add(x, y))))
			s.assume(Imp(And(Eq(app(SInt, "mod", y, m), I(0)), Le(I(0), x), Lt(x, m)), Eq(r, Add(x, y))))
		}
		return scalar(resT, r)
	case token.XOR, token.AND_NOT:
		r := s.uf("bit"+op.String(), SInt, x, y)
		s.assume(s.rangeFacts(scalar(resT, r)))
		return scalar(resT, r)
	}
	panic("binop " + op.String() + " on " + opndT.String())
}

func (s *Session) seenShiftKs() []int {
	var ks []int
	for k := range s.shiftKs {
		ks = append(ks, k)
	}
	sort.Ints(ks)
	return ks
}

func isNumeral(s string) bool {
	if s == "" {
		return false
	}
	for _, c := range s {
		if c < '0' || c > '9' {
			return false
		}
	}
	return true
}
func atoi(s string) int {
	n := 0
	for _, c := range s {
		n = n*10 + int(c-'0')
		if n > 1<<20 {
			return n
		}
	}
	return n
}

// maskBits recognises numerals of the form 2^k-1.
func maskBits(s string) (int, bool) {
	if !isNumeral(s) {
		return 0, false
	}
	b, ok := new(big.Int).SetString(s, 10)
	if !ok {
		return 0, false
	}
	b1 := new(big.Int).Add(b, big.NewInt(1))
	if b1.BitLen() > 0 && new(big.Int).And(b1, b).Sign() == 0 {
		return b1.BitLen() - 1, true
	}
	return 0, false
}

// lowBits: x & (2^k-1). For two's complement signed x this is mod 2^k as well.
func (s *Session) lowBits(x T, k int, t types.Type) T {
	s.shiftKs[k] = true
	return app(SInt, "mod", x, bigT(pow2big(k)))
}

func (s *Session) truncDiv(x, y T, t types.Type) T {
	_, _, _, signed, ok := intRange(t)
	if ok && !signed {
		return app(SInt, "div", x, y)
	}
	// Go truncates toward zero; SMT div is Euclidean.
	q := app(SInt, "div", x, y)
	// if x >= 0: trunc = euclid. if x < 0 and y divides x: same; else euclid+1 (y>0) or euclid-1 (y<0)
	exact := Eq(Mul(q, y), x)
	return Ite(Or(Ge(x, I(0)), exact), q, Ite(Gt(y, I(0)), Add(q, I(1)), Sub(q, I(1))))
}

func (s *Session) rem(x, y T, t types.Type) T {
	_, _, _, signed, ok := intRange(t)
	m := app(SInt, "mod", x, y) // Euclidean: 0 <= m < |y|
	var r T
	if ok && !signed {
		r = m
	} else {
		// Go: sign of result follows dividend
		absy := Ite(Ge(y, I(0)), y, Neg(y))
		r = Ite(Or(Ge(x, I(0)), Eq(m, I(0))), m, Sub(m, absy))
	}
	r = s.define("rem", r)
	if !isNumeral(y.S) {
		// helper facts for symbolic moduli (all consequences of the definition of mod)
		s.assume(Imp(And(Ge(x, I(0)), Gt(y, I(0))), And(Ge(r, I(0)), Lt(r, y))))
		s.assume(Imp(And(Ge(x, I(0)), Lt(x, y)), Eq(r, x)))
		s.assume(Imp(And(Ge(x, y), Lt(x, Mul(I(2), y)), Gt(y, I(0))), Eq(r, Sub(x, y))))
	}
	return r
}

func (s *Session) valEq(a, b Val) T {
	a, b = s.materialize(a), s.materialize(b)
	if len(a.L) != len(b.L) {
		// interface vs concrete etc.
		return s.fresh("eq", SBool)
	}
	var fs []T
	for i := range a.L {
		fs = append(fs, Eq(a.L[i], b.L[i]))
	}
	return And(fs...)
}

func (s *Session) convert(fr *Frame, st *State, v Val, from, to types.Type) Val {
	switch {
	case isIntegerT(from) && isIntegerT(to):
		lo1, hi1, _, _, ok1 := intRange(from)
		lo2, hi2, _, _, ok2 := intRange(to)
		if ok1 && ok2 && lo2.Cmp(lo1) <= 0 && hi2.Cmp(hi1) >= 0 {
			return scalar(to, v.T0())
		}
		if !ok2 {
			return scalar(to, v.T0())
		}
		if ok1 {
			// one correction step suffices when widths are equal; otherwise full mod
			_, _, b1, _, _ := intRange(from)
			_, _, b2, _, _ := intRange(to)
			if b1 == b2 {
				return scalar(to, s.wrap(v.T0(), to))
			}
		}
		return scalar(to, s.wrapFull(v.T0(), to))
	case isIntegerT(from) && isFloat(to):
		return scalar(to, app("Real", "to_real", v.T0()))
	case isFloat(from) && isIntegerT(to):
		// truncation toward zero
		x := v.T0()
		fl := app(SInt, "to_int", x)
		tr := Ite(Or(Ge(x, T{"0.0", "Real"}), Eq(app("Real", "to_real", fl), x)), fl, Add(fl, I(1)))
		r := s.define("f2i", tr)
		return scalar(to, r)
	case isFloat(from) && isFloat(to):
		return scalar(to, v.T0())
	case isStringT(to) && isIntegerT(from):
		return scalar(to, s.uf("rune2str", SInt, v.T0()))
	case isStringT(to):
		// []byte -> string : contents-determined handle
		if len(v.L) == 3 {
			h := s.heapGet(st, heapName("A", "byte", ""), arrSort(arrSort(SInt)))
			r := s.uf("bytes2str", SInt, Select(h, v.L[0]), v.L[1], v.L[2])
			s.assume(Ge(r, I(0)))
			s.assume(Eq(s.strlen(r), v.L[2]))
			s.assume(Eq(Eq(r, I(0)), Eq(v.L[2], I(0))))
			return scalar(to, r)
		}
		return scalar(to, v.T0())
	case isStringT(from):
		// string -> []byte / []rune
		if sl, ok := to.Underlying().(*types.Slice); ok {
			ptr := s.newRef(st)
			name := heapName("A", typeKey(sl.Elem()), "")
			h := s.heapGet(st, name, arrSort(arrSort(SInt)))
			content := s.uf("str2bytes", arrSort(SInt), v.T0())
			st.Heap[name] = s.define("H", Store(h, ptr, content))
			// round trip: bytes2str(str2bytes(s),0,len(s)) == s
			if typeKey(sl.Elem()) == "byte" || typeKey(sl.Elem()) == "uint8" {
				s.assume(Eq(s.uf("bytes2str", SInt, content, I(0), s.strlen(v.T0())), v.T0()))
				s.assume(Eq(Eq(s.strlen(v.T0()), I(0)), Eq(v.T0(), I(0))))
			}
			return Val{Typ: to, L: []T{ptr, I(0), s.strlen(v.T0())}}
		}
	}
	// pointer <-> unsafe.Pointer etc.
	if len(shape(to)) == len(v.L) {
		v.Typ = to
		return v
	}
	return s.opaqueVal(to, "conv")
}

func (s *Session) sliceOp(fr *Frame, x *ssa.Slice, st *State) {
	base := s.valueOf(fr, x.X)
	var lo, hi T
	lo = I(0)
	switch bt := x.X.Type().Underlying().(type) {
	case *types.Slice:
		hi = base.L[2]
		if x.Low != nil {
			lo = s.valueOf(fr, x.Low).T0()
		}
		if x.High != nil {
			hi = s.valueOf(fr, x.High).T0()
		}
		if x.High != nil {
			// high may extend up to cap; we only know len <= cap, so only check against len when no append-style reslice
			s.safety(fr, st, "slice", And(Le(I(0), lo), Le(lo, hi)), "slice bounds low <= high")
		} else {
			s.safety(fr, st, "slice", And(Le(I(0), lo), Le(lo, hi)), "slice bounds low <= len")
		}
		off := base.L[1]
		if lo.S != "0" {
			off = s.define("off", Add(base.L[1], lo))
		}
		s.setVal(fr, x, Val{Typ: x.Type(), L: []T{base.L[0], off, Sub(hi, lo)}})
	case *types.Basic: // string
		if x.Low != nil {
			lo = s.valueOf(fr, x.Low).T0()
		}
		hi = s.strlen(base.T0())
		if x.High != nil {
			hi = s.valueOf(fr, x.High).T0()
		}
		s.safety(fr, st, "slice", And(Le(I(0), lo), Le(lo, hi), Le(hi, s.strlen(base.T0()))), "string slice bounds")
		r := s.uf("substr", SInt, base.T0(), lo, hi)
		s.assume(Eq(s.strlen(r), Sub(hi, lo)))
		s.assume(Ge(r, I(0)))
		s.setVal(fr, x, scalar(x.Type(), r))
	case *types.Pointer: // pointer to array
		at := bt.Elem().Underlying().(*types.Array)
		hi = I(at.Len())
		if x.Low != nil {
			lo = s.valueOf(fr, x.Low).T0()
		}
		if x.High != nil {
			hi = s.valueOf(fr, x.High).T0()
		}
		// copy the array into a fresh backing store (value semantics; aliasing with the array is not modelled)
		loc := s.toLoc(base)
		av := s.load(st, loc)
		ptr := s.newRef(st)
		eloc := &Loc{Kind: "A", TypeKey: typeKey(at.Elem()), Ref: ptr, Typ: at.Elem()}
		names, sorts, _ := locHeaps(eloc)
		for i := range names {
			h := s.heapGet(st, names[i], sorts[i])
			st.Heap[names[i]] = s.define("H", Store(h, ptr, av.L[i]))
		}
		s.note("slicing an array in %s copies it (aliasing with the array not modelled)", fr.fn.String())
		if cells, ok := s.litCells[loc.Ref.S]; ok && loc.Path == "" {
			s.litSlices[ptr.S] = cells
		}
		s.setVal(fr, x, Val{Typ: x.Type(), L: []T{ptr, lo, Sub(hi, lo)}})
	default:
		panic("slice of " + x.X.Type().String())
	}
}

func (s *Session) makeInterface(st *State, v Val, from, to types.Type) Val {
	tag := s.typeTag(from)
	var payload T
	if v.Clo != nil || v.Fn != nil || v.Loc != nil {
		v = s.materialize(v)
	}
	if len(v.L) == 1 && v.L[0].Sort == SInt {
		payload = v.L[0]
	} else if len(v.L) == 1 && v.L[0].Sort == SBool {
		payload = Ite(v.L[0], I(1), I(0))
	} else {
		// box a copy
		loc := s.alloc(st, from)
		if len(shape(from)) == len(v.L) {
			s.store(st, loc, Val{Typ: from, L: v.L})
		}
		payload = loc.Ref
	}
	hu := s.uf("mkiface", SInt, tag, payload)
	h := hu
	if s.noDefine == 0 {
		h = s.fresh("iface", SInt)
		s.assume(Eq(h, hu))
	}
	s.ifaceOrigin[h.S] = ifaceOrg{typ: from, val: v}
	s.assume(Gt(h, I(0)))
	s.assume(Eq(s.uf("typeof", SInt, h), tag))
	s.assume(Eq(s.uf("payload", SInt, h), payload))
	return scalar(to, h)
}

func (s *Session) typeAssert(fr *Frame, x *ssa.TypeAssert, st *State) {
	v := s.valueOf(fr, x.X).T0()
	at := x.AssertedType
	var ok T
	var res Val
	if types.IsInterface(at) {
		ok = And(Not(Eq(v, I(0))), s.uf("implements:"+typeKey(at), SBool, s.uf("typeof", SInt, v)))
		res = scalar(at, Ite(ok, v, I(0)))
	} else {
		tag := s.typeTag(at)
		ok = And(Not(Eq(v, I(0))), Eq(s.uf("typeof", SInt, v), tag))
		ok = s.define("taok", ok)
		p := s.uf("payload", SInt, v)
		ls := shape(at)
		if len(ls) == 1 && ls[0].Sort == SInt {
			res = scalar(at, Ite(ok, p, I(0)))
		} else if len(ls) == 1 && ls[0].Sort == SBool {
			res = scalar(at, And(ok, Eq(p, I(1))))
		} else {
			kind := "P"
			if _, isStruct := at.Underlying().(*types.Struct); isStruct {
				kind = "F"
			}
			lv := s.load(st, &Loc{Kind: kind, TypeKey: typeKey(at), Ref: p, Typ: at})
			z := zeroVal(at)
			res = Val{Typ: at}
			for i := range lv.L {
				res.L = append(res.L, Ite(ok, lv.L[i], z.L[i]))
			}
		}
	}
	if x.CommaOk {
		fr.vals[x] = Val{Typ: x.Type(), Tup: []Val{res, scalar(types.Typ[types.Bool], ok)}}
	} else {
		s.safety(fr, st, "typeassert", ok, "type assertion to "+at.String())
		s.assume(Imp(st.Reach, ok))
		fr.vals[x] = res
	}
}

func mapHeapKey(t types.Type) string { return typeKey(t.Underlying()) }

func (s *Session) mapHeaps(st *State, mt *types.Map) (domName, cardName string, valNames []string, valSorts []string, leaves []Leaf) {
	mk := types.TypeString(mt, nil)
	domName = heapName("M", mk, "dom")
	cardName = heapName("M", mk, "card")
	leaves = shape(mt.Elem())
	for _, l := range leaves {
		valNames = append(valNames, heapName("M", mk, "val"+l.Path))
		valSorts = append(valSorts, arrSort(arrSort(l.Sort)))
	}
	return
}

func (s *Session) keyTerm(v Val) T {
	v = s.materialize(v)
	if len(v.L) == 1 && v.L[0].Sort == SInt {
		return v.L[0]
	}
	if len(v.L) == 1 && v.L[0].Sort == SBool {
		return Ite(v.L[0], I(1), I(0))
	}
	// composite keys: hash with an injective-by-assumption UF
	return s.uf(fmt.Sprintf("key%d", len(v.L)), SInt, intLeaves(v.L)...)
}

func intLeaves(ls []T) []T {
	out := make([]T, len(ls))
	for i, l := range ls {
		if l.Sort == SBool {
			out[i] = Ite(l, I(1), I(0))
		} else {
			out[i] = l
		}
	}
	return out
}

func (s *Session) mapUpdate(fr *Frame, x *ssa.MapUpdate, st *State) {
	m := s.valueOf(fr, x.Map).T0()
	mt := x.Map.Type().Underlying().(*types.Map)
	k := s.keyTerm(s.valueOf(fr, x.Key))
	v := s.materializeFor(s.valueOf(fr, x.Value))
	domN, cardN, valN, valS, _ := s.mapHeaps(st, mt)
	dom := s.heapGet(st, domN, arrSort(arrSort(SBool)))
	card := s.heapGet(st, cardN, arrSort(SInt))
	had := Select(Select(dom, m), k)
	st.Heap[cardN] = s.define("H", Store(card, m, Ite(had, Select(card, m), Add(Select(card, m), I(1)))))
	st.Heap[domN] = s.define("H", Store(dom, m, Store(Select(dom, m), k, TTrue)))
	for i := range valN {
		h := s.heapGet(st, valN[i], valS[i])
		st.Heap[valN[i]] = s.define("H", Store(h, m, Store(Select(h, m), k, v.L[i])))
	}
	s.bumpMapVersion(st, mt, m)
}

// mapLookupRaw: like mapLookup but without the "absent => zero value" normalisation (raw stored value).
func (s *Session) mapLookupRaw(st *State, mt *types.Map, m, k T) (Val, T) {
	domN, _, valN, valS, leaves := s.mapHeaps(st, mt)
	dom := s.heapGet(st, domN, arrSort(arrSort(SBool)))
	had := Select(Select(dom, m), k)
	v := Val{Typ: mt.Elem()}
	for i := range leaves {
		h := s.heapGet(st, valN[i], valS[i])
		v.L = append(v.L, Select(Select(h, m), k))
	}
	return v, had
}

func (s *Session) mapLookup(st *State, mt *types.Map, m, k T) (Val, T) {
	domN, _, valN, valS, leaves := s.mapHeaps(st, mt)
	dom := s.heapGet(st, domN, arrSort(arrSort(SBool)))
	had := And(Not(Eq(m, I(0))), Select(Select(dom, m), k))
	v := Val{Typ: mt.Elem()}
	for i, l := range leaves {
		h := s.heapGet(st, valN[i], valS[i])
		v.L = append(v.L, Ite(had, Select(Select(h, m), k), zeroOfSort(l.Sort)))
	}
	return v, had
}

func (s *Session) lookup(fr *Frame, x *ssa.Lookup, st *State) {
	if mt, ok := x.X.Type().Underlying().(*types.Map); ok {
		m := s.valueOf(fr, x.X).T0()
		k := s.keyTerm(s.valueOf(fr, x.Index))
		v, had := s.mapLookup(st, mt, m, k)
		for i := range v.L {
			v.L[i] = s.define("mv", v.L[i])
		}
		s.assume(Imp(st.Reach, s.rangeFacts(v)))
		if x.CommaOk {
			fr.vals[x] = Val{Typ: x.Type(), Tup: []Val{v, scalar(types.Typ[types.Bool], s.define("had", had))}}
		} else {
			fr.vals[x] = v
		}
		return
	}
	// string index
	base := s.valueOf(fr, x.X).T0()
	idx := s.valueOf(fr, x.Index).T0()
	fr.vals[x] = scalar(x.Type(), s.uf("strat", SInt, base, idx))
}

func (s *Session) next(fr *Frame, x *ssa.Next, st *State) {
	tup := x.Type().(*types.Tuple)
	ok := s.fresh("next_ok", SBool)
	out := Val{Typ: x.Type(), Tup: []Val{scalar(types.Typ[types.Bool], ok)}}
	for i := 1; i < tup.Len(); i++ {
		t := tup.At(i).Type()
		if types.Identical(t, types.Typ[types.Invalid]) {
			out.Tup = append(out.Tup, Val{Typ: t, L: []T{I(0)}})
			continue
		}
		v := s.opaqueVal(t, "next")
		s.assume(s.rangeFacts(v))
		out.Tup = append(out.Tup, v)
	}
	// map iteration: the key is in the domain and the value is the mapped value
	if src, okk := rangeSrcs[fr][x.Iter]; okk && !x.IsString {
		if mt, isMap := src.Type().Underlying().(*types.Map); isMap {
			m := s.valueOf(fr, src).T0()
			keyUsed := !types.Identical(tup.At(1).Type(), types.Typ[types.Invalid])
			var k T
			if keyUsed {
				k = s.keyTerm(out.Tup[1])
			} else {
				k = s.fresh("next_key", SInt) // `for _, v := range m`: v is the value of SOME key of the map
			}
			mv, had := s.mapLookup(st, mt, m, k)
			s.assume(Imp(ok, had))
			s.mapRangeNext(fr, x, mt, m, k, ok, st)
			if tup.At(2).Type() != types.Typ[types.Invalid] && len(mv.L) == len(out.Tup[2].L) {
				for i := range mv.L {
					s.assume(Imp(ok, Eq(out.Tup[2].L[i], mv.L[i])))
				}
			}
		}
	}
	fr.vals[x] = out
}

var _ = strings.Contains

// loopFrameObligations: with a declared `loop N modifies`, every heap family may differ from its value at the
// loop head only at the declared locations (objects allocated during the iteration are exempt).
func (s *Session) loopFrameObligations(fr *Frame, lf *loopFrame, st *State, cond T, ord int) {
	names := make([]string, 0, len(st.Heap))
	for n := range st.Heap {
		names = append(names, n)
	}
	sort.Strings(names)
	for _, n := range names {
		if strings.HasPrefix(n, "G:") || strings.HasPrefix(n, "X:ev") || strings.HasPrefix(n, "X:txn:") || strings.HasPrefix(n, "X:visit:") {
			continue
		}
		cur := st.Heap[n]
		init, ok := lf.head.Heap[n]
		if !ok {
			init = s.heapGet(lf.head, n, st.Sorts[n])
		}
		if cur.S == init.S {
			continue
		}
		whole := false
		for _, l := range lf.allowed[n] {
			if l.whole {
				whole = true
			}
		}
		if whole {
			continue
		}
		r := s.fresh("lfr", SInt)
		conds := []T{Ge(r, I(1)), Le(r, lf.top)}
		if strings.HasPrefix(n, "X:") {
			conds = nil
		}
		for _, l := range lf.allowed[n] {
			conds = append(conds, Not(Eq(r, l.ref)))
		}
		s.addObl(&Obligation{Name: fmt.Sprintf("%s/loopframe#%d.%s", fr.oblPfx, ord, frameLabel(n)), Kind: "frame", Func: fr.oblPfx,
			Src: fmt.Sprintf("loop %d modifies only the declared locations: heap %s", ord, n), Guard: cond, Formula: Imp(And(conds...), Eq(Select(cur, r), Select(init, r)))})
	}
}
