package main

// tryReplay attempts to reproduce a solver counterexample on the real code. Returns true when the
// real code violated the clause on the model's inputs.
func tryReplay(eng *Engine, verif, repo string, o *Obligation, model map[string]string, replayPath string) bool {
	return false
}
