package main

import (
	"context"
	"encoding/json"
	"fmt"
	"os"
	"os/exec"
	"path/filepath"
	"regexp"
	"strings"
	"time"
)

// A replay harness is a Go test kept under /verif/replay that is injected into the package of the failed
// function with `go test -overlay` (nothing is written under /repo). It receives the solver's model (if any)
// in VERIF_REPLAY_MODEL and must FAIL exactly when the real code violates the clause.
type replayEntry struct {
	Obligation string `json:"obligation"` // regexp on the obligation name
	Harness    string `json:"harness"`    // file under /verif/replay
	Pkg        string `json:"pkg"`        // package dir relative to /repo
	Test       string `json:"test"`       // test name
}

func loadReplayIndex(verif string) []replayEntry {
	b, err := os.ReadFile(filepath.Join(verif, "replay", "index.json"))
	if err != nil {
		return nil
	}
	var es []replayEntry
	json.Unmarshal(b, &es)
	return es
}

// tryReplay attempts to reproduce a failed obligation on the real code. Returns true when the real code
// violated the clause (the harness test failed); the harness output is added to the replay file.
func tryReplay(eng *Engine, verif, repo string, o *Obligation, model map[string]string, replayPath string) bool {
	for _, e := range loadReplayIndex(verif) {
		re, err := regexp.Compile(e.Obligation)
		if err != nil || !re.MatchString(o.Name) {
			continue
		}
		tmp, err := os.MkdirTemp("", "govc-replay")
		if err != nil {
			return false
		}
		defer os.RemoveAll(tmp)
		ov := map[string]map[string]string{"Replace": {filepath.Join(repo, e.Pkg, "zz_verif_replay_test.go"): filepath.Join(verif, "replay", e.Harness)}}
		ob, _ := json.Marshal(ov)
		ovPath := filepath.Join(tmp, "ov.json")
		os.WriteFile(ovPath, ob, 0o644)
		ctx, cancel := context.WithTimeout(context.Background(), 300*time.Second)
		defer cancel()
		cmd := exec.CommandContext(ctx, "go", "test", "-overlay", ovPath, "-vet=off", "-count=1", "-timeout", "120s", "-run", "^"+e.Test+"$", "./"+e.Pkg+"/")
		cmd.Dir = repo
		mb, _ := json.Marshal(model)
		cmd.Env = append(os.Environ(), "GOFLAGS=-mod=mod", "GOPROXY=off", "GOSUMDB=off", "GOTOOLCHAIN=local", "VERIF_REPLAY_MODEL="+string(mb))
		out, err := cmd.CombinedOutput()
		text := string(out)
		if len(text) > 8000 {
			text = text[len(text)-8000:]
		}
		failed := err != nil && strings.Contains(text, "--- FAIL")
		// append to replay file
		var doc map[string]interface{}
		if b, e2 := os.ReadFile(replayPath); e2 == nil {
			json.Unmarshal(b, &doc)
		}
		if doc == nil {
			doc = map[string]interface{}{}
		}
		doc["replay_cmd"] = fmt.Sprintf("cd %s && go test -overlay <{%s -> %s}> -vet=off -count=1 -run '^%s$' ./%s/", repo, filepath.Join(e.Pkg, "zz_verif_replay_test.go"), filepath.Join(verif, "replay", e.Harness), e.Test, e.Pkg)
		doc["replay_output"] = text
		doc["replay_reproduced"] = failed
		b, _ := json.MarshalIndent(doc, "", " ")
		os.WriteFile(replayPath, b, 0o644)
		if failed {
			return true
		}
	}
	return false
}

type boundedEntry struct {
	Property string `json:"property"`
	Name     string `json:"name"`
	Harness  string `json:"harness"`
	Pkg      string `json:"pkg"`
	Test     string `json:"test"`
	What     string `json:"what"`
}

func loadBounded(verif string) []boundedEntry {
	b, err := os.ReadFile(filepath.Join(verif, "bounded", "index.json"))
	if err != nil {
		return nil
	}
	var es []boundedEntry
	json.Unmarshal(b, &es)
	return es
}

// runBounded runs a bounded stand-in harness (a Go test injected into the package with -overlay) on the real code.
func runBounded(verif, repo string, e boundedEntry, tier string) (bool, string) {
	tmp, err := os.MkdirTemp("", "govc-bounded")
	if err != nil {
		return false, err.Error()
	}
	defer os.RemoveAll(tmp)
	ov := map[string]map[string]string{"Replace": {filepath.Join(repo, e.Pkg, "zz_verif_bounded_test.go"): filepath.Join(verif, "bounded", e.Harness)}}
	ob, _ := json.Marshal(ov)
	ovPath := filepath.Join(tmp, "ov.json")
	os.WriteFile(ovPath, ob, 0o644)
	ctx, cancel := context.WithTimeout(context.Background(), 900*time.Second)
	defer cancel()
	cmd := exec.CommandContext(ctx, "go", "test", "-overlay", ovPath, "-vet=off", "-count=1", "-timeout", "800s", "-run", "^"+e.Test+"$", "./"+e.Pkg+"/")
	cmd.Dir = repo
	cmd.Env = append(os.Environ(), "GOFLAGS=-mod=mod", "GOPROXY=off", "GOSUMDB=off", "GOTOOLCHAIN=local", "VERIF_BOUND="+tier)
	out, err := cmd.CombinedOutput()
	text := string(out)
	if len(text) > 4000 {
		text = text[len(text)-4000:]
	}
	return err == nil && strings.Contains(text, "ok"), text
}
