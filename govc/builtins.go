package main

import (
	"fmt"
	"go/types"
	"strings"

	"golang.org/x/tools/go/ssa"
)

type builtinFn func(s *Session, fr *Frame, fn *ssa.Function, args []Val, st *State) Val
type invokeFn func(s *Session, fr *Frame, recv Val, args []Val, st *State, cc *ssa.CallCommon) Val

var builtinModels = map[string]builtinFn{}
var builtinEffects = map[string]map[string]string{}
var invokeModels = map[string]invokeFn{}
var invokeEffects = map[string]map[string]string{}

func (s *Session) builtin(fr *Frame, b *ssa.Builtin, cc *ssa.CallCommon, args []Val, st *State, instr *ssa.Call) Val {
	switch b.Name() {
	case "len":
		a := args[0]
		switch ut := cc.Args[0].Type().Underlying().(type) {
		case *types.Slice:
			return scalar(types.Typ[types.Int], a.L[2])
		case *types.Basic:
			l := s.strlen(a.T0())
			s.assume(Ge(l, I(0)))
			s.assume(Eq(Eq(l, I(0)), Eq(a.T0(), I(0))))
			return scalar(types.Typ[types.Int], l)
		case *types.Map:
			_, cardN, _, _, _ := s.mapHeaps(st, ut)
			card := s.heapGet(st, cardN, arrSort(SInt))
			r := s.define("maplen", Ite(Eq(a.T0(), I(0)), I(0), Select(card, a.T0())))
			s.assume(Ge(r, I(0)))
			// a map of length 0 has no keys
			domN, _, _, _, _ := s.mapHeaps(st, ut)
			dom := s.heapGet(st, domN, arrSort(arrSort(SBool)))
			s.nfresh++
			k := fmt.Sprintf("mk!%d", s.nfresh)
			row := Select(dom, a.T0())
			s.assume(Imp(st.Reach, T{fmt.Sprintf("(forall ((%s Int)) (! (=> (= %s 0) (not (select %s %s))) :pattern ((select %s %s))))", k, r.S, row.S, k, row.S, k), SBool}))
			return scalar(types.Typ[types.Int], r)
		case *types.Array:
			return scalar(types.Typ[types.Int], I(ut.Len()))
		case *types.Pointer:
			return scalar(types.Typ[types.Int], I(ut.Elem().Underlying().(*types.Array).Len()))
		case *types.Chan:
			r := s.fresh("chanlen", SInt)
			s.assume(Ge(r, I(0)))
			return scalar(types.Typ[types.Int], r)
		}
	case "cap":
		a := args[0]
		if len(a.L) == 3 {
			r := s.uf("cap", SInt, a.L[0], a.L[1])
			s.assume(Ge(r, a.L[2]))
			return scalar(types.Typ[types.Int], r)
		}
		r := s.fresh("cap", SInt)
		s.assume(Ge(r, I(0)))
		return scalar(types.Typ[types.Int], r)
	case "append":
		return s.appendOp(fr, cc, args, st)
	case "copy":
		return s.copyOp(fr, cc, args, st)
	case "delete":
		mt := cc.Args[0].Type().Underlying().(*types.Map)
		m := args[0].T0()
		k := s.keyTerm(args[1])
		domN, cardN, _, _, _ := s.mapHeaps(st, mt)
		dom := s.heapGet(st, domN, arrSort(arrSort(SBool)))
		card := s.heapGet(st, cardN, arrSort(SInt))
		had := Select(Select(dom, m), k)
		st.Heap[cardN] = s.define("H", Store(card, m, Ite(had, Sub(Select(card, m), I(1)), Select(card, m))))
		st.Heap[domN] = s.define("H", Store(dom, m, Store(Select(dom, m), k, TFalse)))
		s.bumpMapVersion(st, mt, m)
		return Val{}
	case "print", "println":
		return Val{}
	case "recover":
		return scalar(cc.Signature().Results().At(0).Type(), I(0))
	case "close":
		return Val{}
	case "min", "max":
		r := args[0].T0()
		for _, a := range args[1:] {
			if b.Name() == "min" {
				r = Ite(Lt(a.T0(), r), a.T0(), r)
			} else {
				r = Ite(Gt(a.T0(), r), a.T0(), r)
			}
		}
		return scalar(args[0].Typ, r)
	case "ssa:wrapnilchk":
		return args[0]
	}
	panic("unsupported builtin " + b.Name())
}

// appendOp: the result always lives in a fresh backing array (old contents copied); aliasing of
// the result with the argument's spare capacity is not modelled.
func (s *Session) appendOp(fr *Frame, cc *ssa.CallCommon, args []Val, st *State) Val {
	s.aliasScreen(fr, cc, st)
	st0 := args[0]
	slT := cc.Args[0].Type().Underlying().(*types.Slice)
	et := slT.Elem()
	add := args[1]
	// string appended to []byte
	if len(add.L) == 1 {
		ptr := s.newRef(st)
		n := s.strlen(add.T0())
		name := heapName("A", typeKey(et), "")
		h := s.heapGet(st, name, arrSort(arrSort(SInt)))
		st.Heap[name] = s.fresh("hv:"+name, arrSort(arrSort(SInt)))
		_ = h
		return Val{Typ: cc.Args[0].Type(), L: []T{ptr, I(0), Add(st0.L[2], n)}}
	}
	eloc := &Loc{Kind: "A", TypeKey: typeKey(et), Ref: st0.L[0], Typ: et}
	names, sorts, leaves := locHeaps(eloc)
	ptr := s.newRef(st)
	// statically known number of appended elements? (variadic literal slices are built by ssa as
	// new [n]T arrays + Slice; we detect symbolic length 0/1/... through the term)
	if k, ok := s.knownLen(add); ok {
		newLen := st0.L[2]
		for i := range leaves {
			h := s.heapGet(st, names[i], sorts[i])
			content := Select(h, st0.L[0])
			srcArr := Select(h, add.L[0])
			for j := 0; j < k; j++ {
				content = Store(content, Add(st0.L[1], Add(st0.L[2], I(int64(j)))), Select(srcArr, Add(add.L[1], I(int64(j)))))
			}
			st.Heap[names[i]] = s.define("H", Store(h, ptr, content))
		}
		newLen = s.define("len", Add(st0.L[2], I(int64(k))))
		s.assume(Le(newLen, bigT(maxSliceLen)))
		return Val{Typ: cc.Args[0].Type(), L: []T{ptr, st0.L[1], newLen}}
	}
	// symbolic number of elements: quantified description of the new array
	for i, l := range leaves {
		h := s.heapGet(st, names[i], sorts[i])
		na := s.fresh("app", arrSort(l.Sort))
		s.nfresh++
		j := fmt.Sprintf("j!%d", s.nfresh)
		jt := T{j, SInt}
		oldArr := Select(h, st0.L[0])
		srcArr := Select(h, add.L[0])
		ax := fmt.Sprintf("(forall ((%s Int)) (! (=> (and (<= 0 %s) (< %s (+ %s %s))) (= (select %s %s) (ite (< %s %s) (select %s (+ %s %s)) (select %s (+ %s (- %s %s)))))) :pattern ((select %s %s))))",
			j, j, j, st0.L[2].S, add.L[2].S, na.S, j, j, st0.L[2].S, oldArr.S, st0.L[1].S, j, srcArr.S, add.L[1].S, j, st0.L[2].S, na.S, j)
		_ = jt
		s.assume(T{ax, SBool})
		// the same fact seen from the appended slice: its i-th element is element len(old)+i of the result
		// (triggered by a read of the source element, so that facts about "every element of the result" reach it)
		s.nfresh++
		i2 := T{fmt.Sprintf("j!%d", s.nfresh), SInt}
		srcIdx := s.sidx(add.L[1], i2)
		dstIdx := s.sidx(I(0), Add(st0.L[2], i2))
		ax2 := fmt.Sprintf("(forall ((%s Int)) (! (=> (and (<= 0 %s) (< %s %s)) (= (select %s %s) (select %s %s))) :pattern ((select %s %s))))",
			i2.S, i2.S, i2.S, add.L[2].S, na.S, dstIdx.S, srcArr.S, srcIdx.S, srcArr.S, srcIdx.S)
		s.assume(T{ax2, SBool})
		st.Heap[names[i]] = s.define("H", Store(h, ptr, na))
	}
	nl := s.define("len", Add(st0.L[2], add.L[2]))
	s.assume(Le(nl, bigT(maxSliceLen))) // a longer slice cannot exist (append would have panicked: out of memory)
	return Val{Typ: cc.Args[0].Type(), L: []T{ptr, I(0), nl}}
}

// knownLen recognises slices whose length term is a numeral.
func (s *Session) knownLen(v Val) (int, bool) {
	if len(v.L) != 3 {
		return 0, false
	}
	if isNumeral(v.L[2].S) {
		n := atoi(v.L[2].S)
		if n <= 16 {
			return n, true
		}
	}
	if v.L[2].S == "(- 0 0)" {
		return 0, true
	}
	return 0, false
}

func (s *Session) copyOp(fr *Frame, cc *ssa.CallCommon, args []Val, st *State) Val {
	dst, src := args[0], args[1]
	n := s.fresh("ncopy", SInt)
	if len(src.L) == 3 && len(dst.L) == 3 {
		s.assume(Eq(n, Ite(Lt(dst.L[2], src.L[2]), dst.L[2], src.L[2])))
		slT := cc.Args[0].Type().Underlying().(*types.Slice)
		et := slT.Elem()
		eloc := &Loc{Kind: "A", TypeKey: typeKey(et), Ref: dst.L[0], Typ: et}
		names, sorts, leaves := locHeaps(eloc)
		for i, l := range leaves {
			h := s.heapGet(st, names[i], sorts[i])
			na := s.fresh("cpy", arrSort(l.Sort))
			s.nfresh++
			j := fmt.Sprintf("j!%d", s.nfresh)
			oldArr := Select(h, dst.L[0])
			srcArr := Select(h, src.L[0])
			ax := fmt.Sprintf("(forall ((%s Int)) (! (= (select %s %s) (ite (and (<= %s %s) (< %s (+ %s %s))) (select %s (+ %s (- %s %s))) (select %s %s))) :pattern ((select %s %s))))",
				j, na.S, j, dst.L[1].S, j, j, dst.L[1].S, n.S, srcArr.S, src.L[1].S, j, dst.L[1].S, oldArr.S, j, na.S, j)
			s.assume(T{ax, SBool})
			st.Heap[names[i]] = s.define("H", Store(h, dst.L[0], na))
		}
	} else {
		s.assume(Ge(n, I(0)))
		s.note("copy from string in %s: destination contents havocked", fr.fn.String())
		if len(dst.L) == 3 {
			name := heapName("A", "byte", "")
			st.Heap[name] = s.fresh("hv:"+name, arrSort(arrSort(SInt)))
		}
	}
	return scalar(types.Typ[types.Int], n)
}

// ---- models of library functions ----

func noop(s *Session, fr *Frame, fn *ssa.Function, args []Val, st *State) Val {
	return s.freshResult(st, fn.Signature.Results(), fn.Name())
}

func init() {
	for _, n := range []string{
		"(*sync.Mutex).Lock", "(*sync.Mutex).Unlock", "(*sync.RWMutex).Lock", "(*sync.RWMutex).Unlock",
		"(*sync.RWMutex).RLock", "(*sync.RWMutex).RUnlock", "(*sync.WaitGroup).Add", "(*sync.WaitGroup).Done", "(*sync.WaitGroup).Wait",
		"(*github.com/sasha-s/go-deadlock.RWMutex).Lock", "(*github.com/sasha-s/go-deadlock.RWMutex).Unlock",
		"(*github.com/sasha-s/go-deadlock.RWMutex).RLock", "(*github.com/sasha-s/go-deadlock.RWMutex).RUnlock",
		"(*github.com/sasha-s/go-deadlock.Mutex).Lock", "(*github.com/sasha-s/go-deadlock.Mutex).Unlock",
	} {
		name := n
		builtinModels[name] = func(s *Session, fr *Frame, fn *ssa.Function, args []Val, st *State) Val {
			return s.lockOp(fr, name, args, st)
		}
		builtinEffects[name] = map[string]string{}
	}
	// atomic.Value
	builtinModels["(*sync/atomic.Value).Store"] = func(s *Session, fr *Frame, fn *ssa.Function, args []Val, st *State) Val {
		loc := s.toLoc(args[0])
		nl := *loc
		nl.Path = loc.Path + ".v"
		nl.Typ = types.NewInterfaceType(nil, nil)
		s.store(st, &nl, args[1])
		return Val{}
	}
	builtinModels["(*sync/atomic.Value).Load"] = func(s *Session, fr *Frame, fn *ssa.Function, args []Val, st *State) Val {
		loc := s.toLoc(args[0])
		nl := *loc
		nl.Path = loc.Path + ".v"
		nl.Typ = types.NewInterfaceType(nil, nil)
		v := s.load(st, &nl)
		v.Typ = fn.Signature.Results().At(0).Type()
		s.assume(Imp(st.Reach, And(s.rangeFacts(v), s.refFacts(st, v))))
		return v
	}
	// time
	builtinModels["(time.Time).UnixNano"] = func(s *Session, fr *Frame, fn *ssa.Function, args []Val, st *State) Val {
		return scalar(types.Typ[types.Int64], s.unixNano(args[0]))
	}
	builtinModels["(time.Time).Unix"] = func(s *Session, fr *Frame, fn *ssa.Function, args []Val, st *State) Val {
		return scalar(types.Typ[types.Int64], app(SInt, "div", s.unixNano(args[0]), I(1000000000)))
	}
	builtinModels["(time.Time).Add"] = func(s *Session, fr *Frame, fn *ssa.Function, args []Val, st *State) Val {
		r := s.opaqueVal(args[0].Typ, "tadd")
		s.assume(s.rangeFacts(r))
		s.assume(Eq(s.unixNano(r), Add(s.unixNano(args[0]), args[1].T0())))
		return r
	}
	builtinModels["(time.Time).Sub"] = func(s *Session, fr *Frame, fn *ssa.Function, args []Val, st *State) Val {
		return scalar(fn.Signature.Results().At(0).Type(), Sub(s.unixNano(args[0]), s.unixNano(args[1])))
	}
	builtinModels["(time.Time).Before"] = func(s *Session, fr *Frame, fn *ssa.Function, args []Val, st *State) Val {
		return scalar(types.Typ[types.Bool], Lt(s.unixNano(args[0]), s.unixNano(args[1])))
	}
	builtinModels["(time.Time).After"] = func(s *Session, fr *Frame, fn *ssa.Function, args []Val, st *State) Val {
		return scalar(types.Typ[types.Bool], Gt(s.unixNano(args[0]), s.unixNano(args[1])))
	}
	builtinModels["(time.Time).Equal"] = func(s *Session, fr *Frame, fn *ssa.Function, args []Val, st *State) Val {
		return scalar(types.Typ[types.Bool], Eq(s.unixNano(args[0]), s.unixNano(args[1])))
	}
	builtinModels["(time.Time).IsZero"] = func(s *Session, fr *Frame, fn *ssa.Function, args []Val, st *State) Val {
		// the zero Time is the value all of whose (flattened) fields are zero; IsZero is true only for instants equal to it
		t := s.materialize(args[0])
		var zs []T
		for _, l := range t.L {
			if l.Sort == SInt {
				zs = append(zs, Eq(l, I(0)))
			}
		}
		r := s.fresh("iszero", SBool)
		s.assume(Imp(And(zs...), r))
		return scalar(types.Typ[types.Bool], r)
	}
	builtinModels["time.Since"] = func(s *Session, fr *Frame, fn *ssa.Function, args []Val, st *State) Val {
		now := s.fresh("now", SInt)
		return scalar(fn.Signature.Results().At(0).Type(), Sub(now, s.unixNano(args[0])))
	}
	builtinModels["time.Now"] = func(s *Session, fr *Frame, fn *ssa.Function, args []Val, st *State) Val {
		r := s.opaqueVal(fn.Signature.Results().At(0).Type(), "now")
		s.assume(s.rangeFacts(r))
		// a real clock reading is never the zero Time (it carries a location / monotonic reading)
		s.assume(Not(And(Eq(r.L[0], I(0)), Eq(r.L[1], I(0)), Eq(r.L[2], I(0)))))
		// clock readings lie between 1970 and 2096 (0 <= ns <= 4e18): excludes int64 wrap-around in time differences
		s.assume(And(Le(I(0), s.unixNano(r)), Le(s.unixNano(r), IStr("4000000000000000000"))))
		s.ghostSet(st, "evres", Store(s.ghostGet(st, "evres"), s.strLit("time.Now"), s.unixNano(r)))
		return r
	}
	builtinEffects["time.Now"] = map[string]string{"X:evres": arrSort(SInt)}
	builtinModels["time.Unix"] = func(s *Session, fr *Frame, fn *ssa.Function, args []Val, st *State) Val {
		r := s.opaqueVal(fn.Signature.Results().At(0).Type(), "tunix")
		s.assume(s.rangeFacts(r))
		s.assume(Eq(s.unixNano(r), Add(Mul(args[0].T0(), I(1000000000)), args[1].T0())))
		return r
	}
	builtinModels["(time.Duration).Nanoseconds"] = func(s *Session, fr *Frame, fn *ssa.Function, args []Val, st *State) Val {
		return scalar(types.Typ[types.Int64], args[0].T0())
	}
	builtinModels["(time.Duration).Seconds"] = func(s *Session, fr *Frame, fn *ssa.Function, args []Val, st *State) Val {
		return scalar(types.Typ[types.Float64], T{fmt.Sprintf("(/ (to_real %s) 1000000000.0)", args[0].T0().S), "Real"})
	}
	builtinModels["(time.Duration).Milliseconds"] = func(s *Session, fr *Frame, fn *ssa.Function, args []Val, st *State) Val {
		return scalar(types.Typ[types.Int64], s.truncDiv(args[0].T0(), I(1000000), types.Typ[types.Int64]))
	}
	// error wrappers: nil iff the wrapped error is nil
	for _, pkg := range []string{"github.com/pingcap/errors", "github.com/pkg/errors"} {
		for _, fnn := range []string{"WithStack", "Trace", "AddStack", "Annotate", "Annotatef", "WithMessage", "Wrap", "Wrapf"} {
			name := pkg + "." + fnn
			builtinModels[name] = func(s *Session, fr *Frame, fn *ssa.Function, args []Val, st *State) Val {
				r := s.uf("errwrap:"+name, SInt, args[0].T0())
				s.assume(Ge(r, I(0)))
				s.assume(Eq(Eq(r, I(0)), Eq(args[0].T0(), I(0))))
				return scalar(fn.Signature.Results().At(0).Type(), r)
			}
		}
	}
	// proto.Clone: a fresh message of the same dynamic type with the same field values (nested slices/messages
	// are shared in the model; deep copying of nested data is not represented).
	for _, pk := range []string{"github.com/gogo/protobuf/proto", "github.com/golang/protobuf/proto"} {
		builtinModels[pk+".Clone"] = func(s *Session, fr *Frame, fn *ssa.Function, args []Val, st *State) Val {
			org, ok := s.ifaceOrigin[args[0].T0().S]
			pt, isPtr := org.typ.(*types.Pointer)
			if !ok || !isPtr {
				s.note("proto.Clone of a message of unknown dynamic type in %s: result arbitrary", fr.fn.String())
				return s.freshResult(st, fn.Signature.Results(), "clone")
			}
			src := s.load(st, s.toLoc(org.val))
			loc := s.alloc(st, pt.Elem())
			s.store(st, loc, src)
			return s.makeInterface(st, scalar(org.typ, loc.Ref), org.typ, fn.Signature.Results().At(0).Type())
		}
	}
	// sort.Slice / sort.SliceStable / sort.Sort / sort.Stable permute the elements of the slice in place
	// (Less/Swap of the usual named-slice adapters are assumed to be the standard ones)
	for _, nm := range []string{"sort.Slice", "sort.SliceStable", "sort.Sort", "sort.Stable"} {
		builtinModels[nm] = func(s *Session, fr *Frame, fn *ssa.Function, args []Val, st *State) Val {
			org, ok := s.ifaceOrigin[args[0].T0().S]
			if !ok || len(org.val.L) != 3 {
				s.note("sort.Slice on a value of unknown shape in %s: heap havocked", fr.fn.String())
				s.havocAll(st)
				return Val{}
			}
			sl := org.typ.Underlying().(*types.Slice)
			eloc := &Loc{Kind: "A", TypeKey: typeKey(sl.Elem()), Ref: org.val.L[0], Typ: sl.Elem()}
			names, sorts, leaves := locHeaps(eloc)
			s.nfresh++
			pf := s.declFun(fmt.Sprintf("perm!%d", s.nfresh), []string{SInt}, SInt)
			qf := s.declFun(fmt.Sprintf("permi!%d", s.nfresh), []string{SInt}, SInt)
			off, ln := org.val.L[1], org.val.L[2]
			for i, l := range leaves {
				h := s.heapGet(st, names[i], sorts[i])
				oldArr := Select(h, org.val.L[0])
				na := s.fresh("sorted", arrSort(l.Sort))
				s.nfresh++
				j := fmt.Sprintf("j!%d", s.nfresh)
				// every new element is an old element, and every old element is still present (a permutation)
				jT := T{j, SInt}
				ij := s.sidx(off, jT).S
				ipj := s.sidx(off, T{fmt.Sprintf("(%s %s)", pf, j), SInt}).S
				iqj := s.sidx(off, T{fmt.Sprintf("(%s %s)", qf, j), SInt}).S
				ax1 := fmt.Sprintf("(forall ((%s Int)) (! (=> (and (<= 0 %s) (< %s %s)) (and (<= 0 (%s %s)) (< (%s %s) %s) (= (select %s %s) (select %s %s)))) :pattern ((select %s %s))))",
					j, j, j, ln.S, pf, j, pf, j, ln.S, na.S, ij, oldArr.S, ipj, na.S, ij)
				ax2 := fmt.Sprintf("(forall ((%s Int)) (! (=> (and (<= 0 %s) (< %s %s)) (and (<= 0 (%s %s)) (< (%s %s) %s) (= (select %s %s) (select %s %s)))) :pattern ((select %s %s))))",
					j, j, j, ln.S, qf, j, qf, j, ln.S, na.S, iqj, oldArr.S, ij, oldArr.S, ij)
				s.assume(T{ax1, SBool})
				s.assume(T{ax2, SBool})
				st.Heap[names[i]] = s.define("H", Store(h, org.val.L[0], na))
			}
			{
				// the two index maps are inverse to each other (a permutation is a bijection of the index range)
				s.nfresh++
				j := fmt.Sprintf("j!%d", s.nfresh)
				ax3 := fmt.Sprintf("(forall ((%s Int)) (! (=> (and (<= 0 %s) (< %s %s)) (= (%s (%s %s)) %s)) :pattern ((%s %s))))", j, j, j, ln.S, qf, pf, j, j, pf, j)
				ax4 := fmt.Sprintf("(forall ((%s Int)) (! (=> (and (<= 0 %s) (< %s %s)) (= (%s (%s %s)) %s)) :pattern ((%s %s))))", j, j, j, ln.S, pf, qf, j, j, qf, j)
				s.assume(T{ax3, SBool})
				s.assume(T{ax4, SBool})
			}
			s.note("sort in %s: modelled as an arbitrary permutation of the slice (the resulting order is not modelled)", fr.fn.String())
			return Val{}
		}
	}
	// sort.Search(n, f): binary search returns i in [0,n] with f(i) (if i < n) and !f(i-1) (if i > 0); both hold for
	// every predicate, monotone or not. f is run symbolically on scratch copies of the state.
	builtinModels["sort.Search"] = func(s *Session, fr *Frame, fn *ssa.Function, args []Val, st *State) Val {
		n := args[0].T0()
		r := s.fresh("search", SInt)
		s.assume(Imp(st.Reach, And(Le(I(0), r), Le(r, Ite(Ge(n, I(0)), n, I(0))))))
		var cf *ssa.Function
		var binds []Val
		if args[1].Clo != nil {
			cf, binds = args[1].Clo.Fn, args[1].Clo.Bindings
		} else if args[1].Fn != nil {
			cf = args[1].Fn
		}
		if cf != nil && len(cf.Blocks) > 0 {
			runAt := func(i T) (T, bool) {
				scratch := st.clone()
				nf := &Frame{sess: s, fn: cf, params: []Val{scalar(types.Typ[types.Int], i)}, depth: fr.depth + 1, stack: append(append([]*ssa.Function(nil), fr.stack...), cf), oblPfx: fr.oblPfx, nSafety: fr.nSafety}
				pre := map[ssa.Value]Val{}
				for k, fv := range cf.FreeVars {
					pre[fv] = binds[k]
				}
				saved := s.suppressObl
				s.suppressObl = true
				res, out := s.execBodyWith(nf, scratch, pre)
				s.suppressObl = saved
				if out == nil || len(res) != 1 {
					return TTrue, false
				}
				return res[0].T0(), true
			}
			if at, ok := runAt(r); ok {
				s.assume(Imp(And(st.Reach, Lt(r, n)), at))
			}
			if before, ok := runAt(Sub(r, I(1))); ok {
				s.assume(Imp(And(st.Reach, Gt(r, I(0))), Not(before)))
			}
		}
		return scalar(types.Typ[types.Int], r)
	}
	builtinModels["bytes.Compare"] = func(s *Session, fr *Frame, fn *ssa.Function, args []Val, st *State) Val {
		h := s.heapGet(st, heapName("A", "byte", ""), arrSort(arrSort(SInt)))
		a := s.uf("bytes2str", SInt, Select(h, args[0].L[0]), args[0].L[1], args[0].L[2])
		b := s.uf("bytes2str", SInt, Select(h, args[1].L[0]), args[1].L[1], args[1].L[2])
		r := s.uf("keycmp", SInt, a, b)
		s.assume(And(Le(I(-1), r), Le(r, I(1)), Eq(Eq(r, I(0)), Eq(a, b)), Eq(s.uf("keycmp", SInt, b, a), Neg(r))))
		ka, kb := s.uf("keyord", "Real", a), s.uf("keyord", "Real", b)
		s.assume(And(Eq(Lt(r, I(0)), Lt(ka, kb)), Eq(Gt(r, I(0)), Gt(ka, kb))))
		return scalar(types.Typ[types.Int], r)
	}
	builtinModels["bytes.Equal"] = func(s *Session, fr *Frame, fn *ssa.Function, args []Val, st *State) Val {
		h := s.heapGet(st, heapName("A", "byte", ""), arrSort(arrSort(SInt)))
		a := s.uf("bytes2str", SInt, Select(h, args[0].L[0]), args[0].L[1], args[0].L[2])
		b := s.uf("bytes2str", SInt, Select(h, args[1].L[0]), args[1].L[1], args[1].L[2])
		// equal contents <=> equal denoted strings; different lengths are never equal
		r := s.fresh("byteseq", SBool)
		s.assume(Eq(r, Eq(a, b)))
		s.assume(Imp(r, Eq(args[0].L[2], args[1].L[2])))
		s.assume(Imp(And(Eq(args[0].L[2], I(0)), Eq(args[1].L[2], I(0))), r))
		return scalar(types.Typ[types.Bool], r)
	}
	// strconv round trip
	builtinModels["strconv.FormatUint"] = func(s *Session, fr *Frame, fn *ssa.Function, args []Val, st *State) Val {
		r := s.uf("fmtuint", SInt, args[0].T0(), args[1].T0())
		s.assume(Gt(r, I(0)))
		s.assume(Eq(s.uf("parseuint", SInt, r, args[1].T0()), args[0].T0()))
		s.assume(s.uf("parseuint_ok", SBool, r, args[1].T0()))
		return scalar(types.Typ[types.String], r)
	}
	builtinModels["strconv.ParseUint"] = func(s *Session, fr *Frame, fn *ssa.Function, args []Val, st *State) Val {
		ok := s.uf("parseuint_ok", SBool, args[0].T0(), args[1].T0())
		v := s.uf("parseuint", SInt, args[0].T0(), args[1].T0())
		err := s.fresh("err", SInt)
		s.assume(Ge(err, I(0)))
		s.assume(Eq(Eq(err, I(0)), ok))
		val := Ite(ok, v, s.fresh("pu", SInt))
		rv := scalar(types.Typ[types.Uint64], s.define("pu", val))
		s.assume(s.rangeFacts(rv))
		return Val{Typ: fn.Signature.Results(), Tup: []Val{rv, scalar(fn.Signature.Results().At(1).Type(), err)}}
	}
}

// unixNano: abstract nanosecond reading of a time.Time value (wall, ext, loc leaves).
// The zero Time maps to the constant Go computes for time.Time{}.UnixNano().
func (s *Session) unixNano(t Val) T {
	if len(t.L) != 3 {
		t = s.materialize(t)
	}
	r := s.uf("unixnano", SInt, t.L[0], t.L[1])
	s.unixTerms[r.S] = true
	s.assume(And(Le(bigT(minInt64), r), Le(r, bigT(maxInt64))))
	return r
}

// lockOp: Lock/Unlock are no-ops on the modelled state unless a lock discipline is declared
// for the lock's field (guarded_by), in which case guarded fields are havocked at acquisition.
func (s *Session) lockOp(fr *Frame, name string, args []Val, st *State) Val {
	// static lockset (used by `interfere ... unless held L`): the lock is identified by the heap path of its field
	if len(args) == 1 && args[0].Loc != nil {
		id := args[0].Loc.Kind + ":" + args[0].Loc.TypeKey + ":" + args[0].Loc.Path
		switch {
		case strings.HasSuffix(name, ".Lock") || strings.HasSuffix(name, ".RLock"):
			if !st.Locks[id] && !st.Locks[id+":r"] && fr.contract != nil {
				for _, al := range fr.contract.AtLocks {
					se := &SpecEnv{sess: s, pkg: fr.fn.Pkg.Pkg, vars: s.frameEnv(fr), st: st, old: fr.old, fr: fr}
					e, err := parseSpec(al.Lock)
					if err != nil {
						continue
					}
					loc, err2 := s.evalAddr(se, e)
					if err2 != nil || loc.Kind+":"+loc.TypeKey+":"+loc.Path != id {
						continue
					}
					before := st.clone()
					s.havocItems(se, al.Items, st)
					if al.Pred != nil {
						se2 := &SpecEnv{sess: s, pkg: fr.fn.Pkg.Pkg, vars: s.frameEnv(fr), st: st, old: before, fr: fr}
						s.assume(Imp(st.Reach, s.evalBool(se2, al.Pred.E)))
					}
					s.note("%s: at the acquisition of %s the locations {%s} are forgotten (other threads may have changed them while the lock was not held)", fr.fn.String(), al.Lock, strings.Join(al.Items, ", "))
				}
			}
			if !st.Locks[id] && !st.Locks[id+":r"] {
				s.interfereAtLock(fr, id, st, nil)
			}
			if strings.HasSuffix(name, ".RLock") {
				st.Locks[id+":r"] = true // shared: excludes writers only
			} else {
				st.Locks[id] = true
			}
		case strings.HasSuffix(name, ".RUnlock"):
			delete(st.Locks, id+":r")
		case strings.HasSuffix(name, ".Unlock"):
			delete(st.Locks, id)
		}
	}
	return Val{}
}

// aliasScreen (option aliasscreen): the engine gives append a fresh backing array, which is only faithful when
// the first operand has no spare capacity shared with live data. In a function that opts in, an append onto a
// re-slice x[:n] of an existing slice must cap the capacity (x[:n:n]); otherwise the real append may write into
// x's backing array and the obligation `safety:alias` fails.
func (s *Session) aliasScreen(fr *Frame, cc *ssa.CallCommon, st *State) {
	// the option of the function under proof covers the helpers inlined into it
	if s.topContract == nil || s.topContract.Options["aliasscreen"] == "" {
		return
	}
	sl, ok := cc.Args[0].(*ssa.Slice)
	if !ok {
		return
	}
	if _, isSlice := sl.X.Type().Underlying().(*types.Slice); !isSlice {
		return
	}
	// fresh source (make in this function) is harmless
	if _, isMk := sl.X.(*ssa.MakeSlice); isMk {
		return
	}
	capped := false
	if sl.Max != nil && sl.High != nil {
		hi := s.valueOf(fr, sl.High).T0()
		mx := s.valueOf(fr, sl.Max).T0()
		capped = hi.S == mx.S
	}
	fr.nSafety["alias"]++
	s.addObl(&Obligation{Name: fmt.Sprintf("%s/safety:alias#%d", fr.oblPfx, fr.nSafety["alias"]), Kind: "safety", Func: fr.oblPfx,
		Src: "append onto a re-slice of an existing slice must not share its backing array (use x[:n:n])", Guard: st.Reach, Formula: B(capped)})
}
