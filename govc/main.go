package main

import (
	"encoding/json"
	"flag"
	"fmt"
	"os"
	"path/filepath"
	"regexp"
	"sort"
	"strings"
	"sync"
	"time"
)

type KnownFinding struct {
	Property   string `json:"property"`
	Obligation string `json:"obligation"`
	What       string `json:"what"`
	Excluded   string `json:"excluded,omitempty"`
	Status     string `json:"status"` // known | fixed
	Commit     string `json:"commit,omitempty"`
}

func main() {
	if len(os.Args) < 2 {
		fmt.Fprintln(os.Stderr, "usage: govc check --prop Cxx [--tier quick|thorough] | govc dump ...")
		os.Exit(2)
	}
	switch os.Args[1] {
	case "check":
		os.Exit(cmdCheck(os.Args[2:]))
	case "ssa":
		// govc ssa <pkgdir-relative-to-repo> <funckey>
		eng, err := loadEngine("/repo", []string{"./" + os.Args[2]}, "/verif/specs", nil)
		if err != nil {
			fmt.Println(err)
			os.Exit(2)
		}
		for path := range eng.allPkgs {
			if strings.HasSuffix(path, os.Args[2]) {
				if fn := eng.lookupFunc(path, os.Args[3]); fn != nil {
					fn.WriteTo(os.Stdout)
					for h, n := range loopOrdinals(fn) {
						fmt.Printf("loop %d: header block %d\n", n, h.Index)
					}
				}
			}
		}
	default:
		fmt.Fprintln(os.Stderr, "unknown command")
		os.Exit(2)
	}
}

var propRe = regexp.MustCompile(`(?m)^\s*//@\s+props\s+(.*)$`)

// findContractDirs scans /repo for contract files that mention the property.
func findContractDirs(repo, prop string) ([]string, error) {
	var dirs []string
	seen := map[string]bool{}
	err := filepath.Walk(repo, func(path string, info os.FileInfo, err error) error {
		if err != nil {
			return nil
		}
		if info.IsDir() {
			if info.Name() == ".git" || info.Name() == "node_modules" {
				return filepath.SkipDir
			}
			return nil
		}
		if !strings.HasPrefix(info.Name(), "zz_verif_contracts") || !strings.HasSuffix(info.Name(), ".go") {
			return nil
		}
		b, err := os.ReadFile(path)
		if err != nil {
			return nil
		}
		for _, m := range propRe.FindAllStringSubmatch(string(b), -1) {
			for _, p := range strings.Fields(strings.ReplaceAll(m[1], ",", " ")) {
				if p == prop && !seen[filepath.Dir(path)] {
					seen[filepath.Dir(path)] = true
					dirs = append(dirs, filepath.Dir(path))
				}
			}
		}
		return nil
	})
	sort.Strings(dirs)
	return dirs, err
}

func hasProp(ps []string, p string) bool {
	for _, x := range ps {
		if x == p {
			return true
		}
	}
	return false
}

func cmdCheck(args []string) int {
	fs := flag.NewFlagSet("check", flag.ExitOnError)
	prop := fs.String("prop", "", "property id")
	tier := fs.String("tier", "quick", "quick|thorough")
	repo := fs.String("repo", "/repo", "repository root")
	verif := fs.String("verif", "/verif", "verif root")
	only := fs.String("only", "", "only functions whose key contains this")
	verbose := fs.Bool("v", false, "verbose")
	keep := fs.Bool("keep", false, "keep all smt files")
	list := fs.Bool("list", false, "list every obligation with its status")
	timeout := fs.Int("timeout", 0, "per-obligation timeout (s)")
	fs.Parse(args)
	t0 := time.Now()
	if *prop == "" {
		fmt.Fprintln(os.Stderr, "--prop required")
		return 2
	}
	to := 60
	if *tier == "thorough" {
		to = 180
	}
	if *timeout > 0 {
		to = *timeout
	}
	dirs, err := findContractDirs(*repo, *prop)
	if err != nil || len(dirs) == 0 {
		return failHard(*verif, *prop, *tier, t0, fmt.Sprintf("no contract files for %s found under %s (%v)", *prop, *repo, err))
	}
	var patterns []string
	for _, d := range dirs {
		rel, _ := filepath.Rel(*repo, d)
		patterns = append(patterns, "./"+rel)
	}
	eng, err := loadEngine(*repo, patterns, filepath.Join(*verif, "specs"), nil)
	if err != nil {
		return failHard(*verif, *prop, *tier, t0, "loading /repo failed: "+err.Error())
	}
	eng.verbose = *verbose
	loadS := time.Since(t0).Seconds()

	// select contracts
	var keys []string
	for k, c := range eng.db.Contracts {
		if hasProp(c.Props, *prop) && !c.Assumed {
			if *only == "" || strings.Contains(k, *only) {
				keys = append(keys, k)
			}
		}
	}
	sort.Strings(keys)
	var reports []*FuncReport
	for _, k := range keys {
		// `option modesonly`: every clause of the contract belongs to a mode (callers that name no mode get the frame
		// only), so there is no unmoded statement to prove - the per-mode runs prove everything there is
		if eng.db.Contracts[k].Options["modesonly"] == "" {
			reports = append(reports, eng.verifyFunc(eng.db.Contracts[k]))
		}
		for _, m := range contractModes(eng.db.Contracts[k]) {
			reports = append(reports, eng.verifyFuncMode(eng.db.Contracts[k], m))
		}
	}
	for _, l := range eng.db.Lemmas {
		if hasProp(l.Props, *prop) && (*only == "" || strings.Contains(l.Name, *only)) {
			reports = append(reports, eng.verifyLemma(l))
		}
	}
	genS := time.Since(t0).Seconds() - loadS

	outDir := filepath.Join(*verif, "out", *prop)
	os.RemoveAll(outDir)
	os.MkdirAll(outDir, 0o755)

	// discharge
	type job struct {
		s *Session
		o *Obligation
	}
	var jobs []job
	for _, r := range reports {
		for _, o := range r.Session.obls {
			jobs = append(jobs, job{r.Session, o})
		}
	}
	var wg sync.WaitGroup
	sem := make(chan struct{}, 4)
	var solverS float64
	var mu sync.Mutex
	for i, j := range jobs {
		wg.Add(1)
		i, j := i, j
		go func() {
			defer wg.Done()
			sem <- struct{}{}
			defer func() { <-sem }()
			file := filepath.Join(outDir, fmt.Sprintf("q%04d.smt2", i))
			j.o.File = file
			q := j.s.query(j.o)
			writeFile(file, q)
			tmo := to
			if j.o.Kind == "vacuity" && tmo > 2 {
				tmo = 2
			}
			tmo1 := tmo
			if j.o.Kind != "vacuity" && j.s.hasOpaque(j.o) && tmo1 > 3 {
				tmo1 = 3 // first attempt (opaque predicates as atoms) is either quick or hopeless
			}
			j.o.Result = solvePortfolio(file, tmo1, true)
			if j.o.Result.Status != "unsat" && j.o.Kind != "vacuity" && j.s.hasOpaque(j.o) {
				// second attempt with the definitions of the opaque predicates revealed
				first := j.o.Result.Secs
				writeFile(file, j.s.queryWith(j.o, true))
				j.o.Result = solvePortfolio(file, tmo, true)
				j.o.Result.Secs += first
			}
			mu.Lock()
			solverS += j.o.Result.Secs
			mu.Unlock()
		}()
	}
	wg.Wait()

	known := loadKnown(filepath.Join(*verif, "known_findings.json"))
	// evaluate
	nObl, nDis := 0, 0
	byBackend := map[string]int{}
	var samples []map[string]interface{}
	var violations []string
	var knownHit []string
	var fucs, assumptions, inlined, usedContracts []string
	notes := map[string]bool{}
	vac := 0
	for _, r := range reports {
		fucs = append(fucs, r.Key)
		if r.Err != "" {
			name := r.Key + "/undecided"
			rp := writeReplay(outDir, *prop, name, "undecided: "+r.Err, nil, nil)
			violations = append(violations, fmt.Sprintf("VIOLATION property=%s replay=%s no-failing-input-found", *prop, rp))
			fmt.Printf("UNDECIDED %s: %s\n", r.Key, r.Err)
			continue
		}
		for n := range r.Session.notes {
			notes[n] = true
		}
		for n := range r.Session.inlined {
			inlined = append(inlined, n)
		}
		for n := range r.Session.used {
			usedContracts = append(usedContracts, n)
		}
		for _, o := range r.Session.obls {
			if o.Kind == "vacuity" {
				// must NOT be provable
				if o.Result.Status == "unsat" {
					rp := writeReplay(outDir, *prop, o.Name, "assumptions of "+o.Func+" are contradictory or its exit is unreachable (vacuous proof)", o, nil)
					violations = append(violations, fmt.Sprintf("VIOLATION property=%s replay=%s no-failing-input-found", *prop, rp))
					fmt.Printf("VACUOUS %s\n", o.Name)
				} else {
					vac++
				}
				if !*keep {
					os.Remove(o.File)
				}
				continue
			}
			nObl++
			if *list {
				fmt.Printf("  %-8s %6.2fs %-7s %s\n", o.Result.Status, o.Result.Secs, o.Result.Backend, o.Name)
			}
			if o.Result.Status == "unsat" {
				nDis++
				byBackend[o.Result.Backend]++
				if len(samples) < 6 {
					st, _ := os.Stat(o.File)
					sz := int64(0)
					if st != nil {
						sz = st.Size()
					}
					samples = append(samples, map[string]interface{}{"obligation": o.Name, "clause": o.Src, "smt_bytes": sz, "backend": o.Result.Backend, "s": round3(o.Result.Secs)})
				}
				if !*keep {
					os.Remove(o.File)
				}
				continue
			}
			// failed
			kf := matchKnown(known, *prop, o.Name)
			if kf != nil {
				knownHit = append(knownHit, o.Name)
				fmt.Printf("KNOWN-FINDING: property=%s %s (%s)\n", *prop, kf.What, o.Name)
				nObl-- // known findings are not counted as obligations of the proof
				continue
			}
			model := parseModel(o)
			rp := writeReplay(outDir, *prop, o.Name, o.Result.Status, o, model)
			suffix := ""
			replayed := false
			replayed = tryReplay(eng, *verif, *repo, o, model, rp)
			if !replayed {
				suffix = " no-failing-input-found"
			}
			violations = append(violations, fmt.Sprintf("VIOLATION property=%s replay=%s%s", *prop, rp, suffix))
			fmt.Printf("FAILED %s [%s by %s in %.2fs] %s\n    %s\n", o.Name, o.Result.Status, o.Result.Backend, o.Result.Secs, o.File, o.Src)
		}
	}
	for n := range notes {
		assumptions = append(assumptions, n)
	}
	sort.Strings(assumptions)
	sort.Strings(inlined)
	inlined = uniq(inlined)
	sort.Strings(usedContracts)
	usedContracts = uniq(usedContracts)
	var assumedContracts []string
	for _, k := range usedContracts {
		if c := eng.db.Contracts[k]; c != nil && (c.Assumed || !hasProp(c.Props, *prop)) {
			tag := "assumed (trusted, not verified against a body)"
			if !c.Assumed {
				tag = "verified under another property: " + strings.Join(c.Props, ",")
			}
			assumedContracts = append(assumedContracts, k+" — "+tag)
		}
	}
	wall := time.Since(t0).Seconds()
	baseAssumptions := []string{
		"integers: exact two's-complement semantics for + - * << conversions (wrap modelled), mathematical integers in specifications",
		"float64/float32 modelled as mathematical reals (no rounding, NaN or Inf)",
		"strings are opaque handles with length; only equality, length and concatenation length are interpreted",
		"slices: append always yields a fresh backing array (aliasing through spare capacity not modelled)",
		"log/zap/prometheus/failpoint calls have no effect on the modelled state",
		"objects allocated by a callee under contract are assumed not to alias existing objects only if the contract says so",
		"goroutines started with `go` are not executed; mutex Lock/Unlock are no-ops unless a lock discipline is declared (sequential reading of each function)",
		"termination is not proved",
	}
	assumptions = append(baseAssumptions, assumptions...)
	for _, a := range assumedContracts {
		assumptions = append(assumptions, "contract used at call sites: "+a)
	}
	// bounded stand-ins (labelled bounded, never counted as proved)
	boundedNotes := []string{}
	for _, be := range loadBounded(*verif) {
		if be.Property != *prop || *only != "" {
			continue
		}
		ok, out := runBounded(*verif, *repo, be, *tier)
		if ok {
			boundedNotes = append(boundedNotes, be.Name+": "+be.What+" ["+*tier+" bound passed]")
		} else {
			rp := writeReplay(outDir, *prop, be.Name, "bounded stand-in failed: "+be.What+"\n"+out, nil, nil)
			violations = append(violations, fmt.Sprintf("VIOLATION property=%s replay=%s", *prop, rp))
			fmt.Printf("FAILED %s [bounded harness]\n", be.Name)
		}
	}
	ev := map[string]interface{}{
		"property_id": *prop, "tier": *tier, "seed": 0, "level": "proof", "wall_s": round3(wall), "violations": len(violations),
		"coverage": map[string]interface{}{
			"obligations": nObl, "discharged": nDis,
			"checker_cmd":  fmt.Sprintf("/verif/bin/govc check --prop %s --tier %s (VCs from go/ssa of %s; solvers z3-new 5.1.0, cvc5 1.0.3, z3 4.8.12 raced, %ds per obligation)", *prop, *tier, *repo, to),
			"trusted_base": []string{"govc VC generator (this repository) + golang.org/x/tools/go/ssa v0.29.0", "SMT solvers z3 5.1.0 / z3 4.8.12 / cvc5 1.0.3", "prelude models in /verif/govc/builtins.go and /verif/specs/*.spec", "assumed contracts listed under assumptions"},
			"functions_under_contract": fucs, "transparent_inlined": inlined, "by_backend": byBackend, "solver_s": round3(solverS),
			"load_s": round3(loadS), "vcgen_s": round3(genS), "samples": samples, "vacuity_checks_passed": vac,
			"known_findings_hit": knownHit, "bounded": boundedNotes, "exhaustive": false,
		},
		"assumptions": assumptions,
	}
	if nObl == 0 {
		violations = append(violations, fmt.Sprintf("VIOLATION property=%s replay=%s no-failing-input-found", *prop, writeReplay(outDir, *prop, "no-obligations", "zero obligations generated", nil, nil)))
	}
	os.MkdirAll(filepath.Join(*verif, "evidence"), 0o755)
	b, _ := json.MarshalIndent(ev, "", " ")
	os.WriteFile(filepath.Join(*verif, "evidence", *prop+".json"), b, 0o644)
	fmt.Printf("%s: %d functions under contract, %d obligations, %d discharged, %d known findings, %d violations (load %.1fs, vcgen %.1fs, solver %.1fs cpu, wall %.1fs)\n",
		*prop, len(fucs), nObl, nDis, len(knownHit), len(violations), loadS, genS, solverS, wall)
	for _, v := range violations {
		fmt.Println(v)
	}
	if len(violations) > 0 {
		return 1
	}
	return 0
}

func uniq(xs []string) []string {
	var out []string
	for i, x := range xs {
		if i == 0 || x != xs[i-1] {
			out = append(out, x)
		}
	}
	return out
}

func round3(f float64) float64 { return float64(int(f*1000+0.5)) / 1000 }

func failHard(verif, prop, tier string, t0 time.Time, msg string) int {
	outDir := filepath.Join(verif, "out", prop)
	os.MkdirAll(outDir, 0o755)
	rp := writeReplay(outDir, prop, "load", "undecided: "+msg, nil, nil)
	fmt.Println("UNDECIDED:", msg)
	ev := map[string]interface{}{
		"property_id": prop, "tier": tier, "seed": 0, "level": "proof", "wall_s": round3(time.Since(t0).Seconds()), "violations": 1,
		"coverage":    map[string]interface{}{"obligations": 0, "discharged": 0, "checker_cmd": "govc check", "trusted_base": []string{}, "evaluations": 1, "distinct_nontrivial": 0, "explanation": msg},
		"assumptions": []string{},
	}
	os.MkdirAll(filepath.Join(verif, "evidence"), 0o755)
	b, _ := json.MarshalIndent(ev, "", " ")
	os.WriteFile(filepath.Join(verif, "evidence", prop+".json"), b, 0o644)
	fmt.Printf("VIOLATION property=%s replay=%s no-failing-input-found\n", prop, rp)
	return 1
}

func loadKnown(path string) []KnownFinding {
	b, err := os.ReadFile(path)
	if err != nil {
		return nil
	}
	var doc struct {
		Findings []KnownFinding `json:"findings"`
	}
	if json.Unmarshal(b, &doc) != nil {
		return nil
	}
	return doc.Findings
}

func matchKnown(ks []KnownFinding, prop, obl string) *KnownFinding {
	for i := range ks {
		if ks[i].Status == "known" && ks[i].Property == prop && ks[i].Obligation == obl {
			return &ks[i]
		}
	}
	return nil
}

var modelPairRe = regexp.MustCompile(`\(\s*(\|[^|]*\||[^\s()]+)\s+((?:\(- \d+\))|(?:\d+)|true|false|(?:\(/ [^)]*\))|(?:\(- \(/ [^)]*\)\))|(?:\d+\.\d+))\s*\)`)

func parseModel(o *Obligation) map[string]string {
	if o.Result.Status != "sat" {
		return nil
	}
	out := map[string]string{}
	idx := strings.Index(o.Result.Output, "\n")
	if idx < 0 {
		return out
	}
	body := o.Result.Output[idx:]
	byTerm := map[string]string{}
	for _, m := range modelPairRe.FindAllStringSubmatch(body, -1) {
		byTerm[m[1]] = strings.NewReplacer("(- ", "-", ")", "").Replace(m[2])
	}
	for _, in := range o.Inputs {
		if v, ok := byTerm[in.Term.S]; ok {
			out[in.Name] = v
		}
	}
	return out
}

func writeReplay(outDir, prop, obl, status string, o *Obligation, model map[string]string) string {
	name := strings.NewReplacer("/", "_", ":", "_", "*", "", "(", "", ")", "", " ", "_", "#", "_", "@", "_at_", "~", "_").Replace(obl)
	path := filepath.Join(outDir, "replay_"+name+".json")
	doc := map[string]interface{}{"property": prop, "obligation": obl, "status": status}
	if o != nil {
		doc["function"] = o.Func
		doc["clause"] = o.Src
		doc["kind"] = o.Kind
		doc["solver"] = o.Result.Backend
		doc["solver_status"] = o.Result.Status
		out := o.Result.Output
		if len(out) > 20000 {
			out = out[:20000]
		}
		doc["solver_output"] = out
		doc["smt_file"] = o.File
	}
	if model != nil {
		doc["model"] = model
	}
	b, _ := json.MarshalIndent(doc, "", " ")
	os.WriteFile(path, b, 0o644)
	return path
}
