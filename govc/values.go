package main

import (
	"fmt"
	"go/types"
	"math/big"
	"strings"

	"golang.org/x/tools/go/ssa"
)

// Leaf describes one SMT-sorted component of a Go value.
type Leaf struct {
	Path string
	Sort string
	Typ  types.Type
}

// Loc is a statically resolved pointer: heap family + reference + indices + path.
type Loc struct {
	Kind    string // F (struct fields), P (plain pointee), A (slice backing array), G (global)
	TypeKey string
	Ref     T
	Idx     []T
	Path    string
	Typ     types.Type // pointee type
}

type Closure struct {
	Fn       *ssa.Function
	Bindings []Val
}

// Val is a symbolic Go value.
type Val struct {
	Typ types.Type
	L   []T
	Loc *Loc
	Clo *Closure
	Tup []Val
	Fn  *ssa.Function
}

func typeKey(t types.Type) string {
	switch tt := t.(type) {
	case *types.Named:
		if tt.Obj().Pkg() != nil {
			return tt.Obj().Pkg().Path() + "." + tt.Obj().Name()
		}
		return tt.Obj().Name()
	}
	return types.TypeString(t, nil)
}

func isFloat(t types.Type) bool {
	b, ok := t.Underlying().(*types.Basic)
	return ok && b.Info()&types.IsFloat != 0
}
func isBoolT(t types.Type) bool {
	b, ok := t.Underlying().(*types.Basic)
	return ok && b.Info()&types.IsBoolean != 0
}
func isStringT(t types.Type) bool {
	b, ok := t.Underlying().(*types.Basic)
	return ok && b.Info()&types.IsString != 0
}
func isIntegerT(t types.Type) bool {
	b, ok := t.Underlying().(*types.Basic)
	return ok && b.Info()&types.IsInteger != 0
}

// intRange returns (lo, hi, bits, signed, ok) for fixed-size integer types.
func intRange(t types.Type) (lo, hi *big.Int, bits int, signed bool, ok bool) {
	b, isB := t.Underlying().(*types.Basic)
	if !isB || b.Info()&types.IsInteger == 0 {
		return nil, nil, 0, false, false
	}
	switch b.Kind() {
	case types.Int8:
		bits, signed = 8, true
	case types.Int16:
		bits, signed = 16, true
	case types.Int32:
		bits, signed = 32, true
	case types.Int64, types.Int:
		bits, signed = 64, true
	case types.Uint8:
		bits = 8
	case types.Uint16:
		bits = 16
	case types.Uint32:
		bits = 32
	case types.Uint64, types.Uint, types.Uintptr:
		bits = 64
	case types.UntypedInt, types.UntypedRune:
		return nil, nil, 0, false, false
	default:
		return nil, nil, 0, false, false
	}
	one := big.NewInt(1)
	if signed {
		hi = new(big.Int).Sub(new(big.Int).Lsh(one, uint(bits-1)), one)
		lo = new(big.Int).Neg(new(big.Int).Lsh(one, uint(bits-1)))
	} else {
		lo = big.NewInt(0)
		hi = new(big.Int).Sub(new(big.Int).Lsh(one, uint(bits)), one)
	}
	return lo, hi, bits, signed, true
}

func bigT(b *big.Int) T { return IStr(b.String()) }

func pow2big(n int) *big.Int { return new(big.Int).Lsh(big.NewInt(1), uint(n)) }

var shapeCache = map[string][]Leaf{}

// shape flattens a Go type into SMT-sorted leaves.
func shape(t types.Type) []Leaf {
	key := types.TypeString(t, nil)
	if s, ok := shapeCache[key]; ok {
		return s
	}
	shapeCache[key] = nil // recursion guard (recursive types are always behind pointers)
	var out []Leaf
	switch u := t.Underlying().(type) {
	case *types.Basic:
		switch {
		case u.Info()&types.IsBoolean != 0:
			out = []Leaf{{"", SBool, t}}
		case u.Info()&types.IsFloat != 0:
			out = []Leaf{{"", "Real", t}}
		default:
			out = []Leaf{{"", SInt, t}}
		}
	case *types.Struct:
		for i := 0; i < u.NumFields(); i++ {
			f := u.Field(i)
			for _, l := range shape(f.Type()) {
				out = append(out, Leaf{"." + f.Name() + l.Path, l.Sort, l.Typ})
			}
		}
		if len(out) == 0 {
			out = []Leaf{}
		}
	case *types.Slice:
		out = []Leaf{{"#ptr", SInt, t}, {"#off", SInt, types.Typ[types.Int]}, {"#len", SInt, types.Typ[types.Int]}}
	case *types.Array:
		for _, l := range shape(u.Elem()) {
			out = append(out, Leaf{"[]" + l.Path, arrSort(l.Sort), l.Typ})
		}
	case *types.Tuple:
		panic("shape of tuple")
	default: // pointer, map, chan, func, interface, unsafe pointer
		out = []Leaf{{"", SInt, t}}
	}
	shapeCache[key] = out
	return out
}

func zeroOfSort(sort string) T {
	switch sort {
	case SInt:
		return I(0)
	case SBool:
		return TFalse
	case "Real":
		return T{"0.0", "Real"}
	}
	if isArr(sort) {
		z := zeroOfSort(arrElem(sort))
		return T{fmt.Sprintf("((as const %s) %s)", sort, z.S), sort}
	}
	panic("zeroOfSort " + sort)
}

func zeroVal(t types.Type) Val {
	if tup, ok := t.(*types.Tuple); ok {
		v := Val{Typ: t}
		for i := 0; i < tup.Len(); i++ {
			v.Tup = append(v.Tup, zeroVal(tup.At(i).Type()))
		}
		return v
	}
	v := Val{Typ: t}
	for _, l := range shape(t) {
		v.L = append(v.L, zeroOfSort(l.Sort))
	}
	return v
}

func scalar(t types.Type, x T) Val { return Val{Typ: t, L: []T{x}} }

func (v Val) T0() T {
	if len(v.L) != 1 {
		panic(fmt.Sprintf("T0 on value with %d leaves (type %v)", len(v.L), v.Typ))
	}
	return v.L[0]
}

func sanitize(s string) string {
	r := strings.NewReplacer("|", "!", "\\", "!", " ", "_", "\n", "_", "\t", "_")
	return r.Replace(s)
}

// leafIndex finds the sub-range of leaves of t that live under path prefix p with type ft.
func subLeaves(t types.Type, prefix string) (start, n int) {
	ls := shape(t)
	start = -1
	for i, l := range ls {
		if strings.HasPrefix(l.Path, prefix) && (len(l.Path) == len(prefix) || l.Path[len(prefix)] == '.' || l.Path[len(prefix)] == '#' || l.Path[len(prefix)] == '[') {
			if start < 0 {
				start = i
			}
			n++
		}
	}
	return
}

func fieldVal(sv Val, idx int) Val {
	st := sv.Typ.Underlying().(*types.Struct)
	f := st.Field(idx)
	// compute offset
	off := 0
	for i := 0; i < idx; i++ {
		off += len(shape(st.Field(i).Type()))
	}
	n := len(shape(f.Type()))
	return Val{Typ: f.Type(), L: append([]T(nil), sv.L[off:off+n]...)}
}

func setFieldVal(sv Val, idx int, fv Val) Val {
	st := sv.Typ.Underlying().(*types.Struct)
	off := 0
	for i := 0; i < idx; i++ {
		off += len(shape(st.Field(i).Type()))
	}
	out := Val{Typ: sv.Typ, L: append([]T(nil), sv.L...)}
	copy(out.L[off:], fv.L)
	return out
}
