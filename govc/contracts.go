package main

import (
	"fmt"
	"os"
	"path/filepath"
	"regexp"
	"sort"
	"strconv"
	"strings"
)

type Clause struct {
	Using []string // `use(a,b)`: prove this clause from the quantified assumptions of these origins only (plus all ground facts)
	Mode  string // "" = always; otherwise the clause belongs to the named contract mode (see `at F K mode M`)
	Label string
	Src   string
	E     SExpr
}

type Param struct {
	Name string
	Type string // Go type text, resolved lazily in the package scope
}

type Contract struct {
	Pkg      string // package path
	FuncKey  string // "(*T).M", "(T).M", "F", "F$1"; for interface methods "(Iface).M"
	Props    []string
	Requires []Clause
	Ensures  []Clause
	Dispatch []DispatchRule // see DispatchRule
	Witness  []Clause // definitions of specification functions (uf/ufptr) over the result of this call, assumed at exit
	Modifies []string
	ModGiven bool
	Ats      map[string][]Clause // call-site assertions keyed "Name#k"
	Modes    map[string]string   // contract mode used at a call site, keyed "Name#k"
	Loops    map[int][]Clause // invariants by loop ordinal (1-based, source order of loop headers)
	LoopMod  map[int][]string
	LoopIso  map[int]bool // loops whose body obligations do not see the assertions made between the requires and the loop head
	LoopAssume map[int][]Clause // assumed (NOT proved) facts at a loop head; each is listed in the evidence
	Interf   []Interference
	AtLocks  []AtLock
	Options  map[string]string
	Assumed  bool   // trusted contract: used at call sites, not verified against a body
	File     string // where it was declared
	Line     int
}

// Interference: before every call of one of Callees (unless Lock is statically held) the ghost maps are
// forgotten and re-assumed under the two-state rely predicate Pred (old() = the state before the interference).
type Interference struct {
	Callees []string
	Lock    string
	Havoc   []string // heap locations (modifies-item syntax) that other threads may also change, besides the ghost maps
	Pred    Clause
}

// AtLock: when the function acquires Lock (and does not hold it already), the listed locations may have been
// changed by other threads since they were last read: they are forgotten (and re-assumed under the optional rely).
type AtLock struct {
	Lock  string
	Items []string
	Pred  *Clause
}

// DispatchRule (`dispatch IFACE.METHOD UF`): whenever a value of a concrete type T is boxed into interface IFACE
// while the function is being proved, the postconditions of T's METHOD (which must be under contract) are assumed
// for every argument with `result` replaced by UF(boxed value, args...) - i.e. calling the interface method on that
// value runs T's method (the interface method itself is specified as result == UF(self, args...)).
type DispatchRule struct {
	Iface, Method, UF string
	ForType           string // `dispatch IFACE.METHOD UF for T`: the rule holds for every interface value holding a T
}

type PureFn struct {
	Opaque bool
	Pkg    string
	Name   string
	Params []Param
	Body   SExpr
	Src    string
}

type Lemma struct {
	Pkg    string
	Name   string
	Props  []string
	Params []Param
	Hyps   []Clause
	Concl  []Clause
	File   string
}

type ContractDB struct {
	Contracts map[string]*Contract // key pkg + "::" + FuncKey
	Pures     map[string]*PureFn   // key pkg + "::" + name ; also plain name for global lookups
	Lemmas    []*Lemma
	Transp    map[string]bool // pkg::FuncKey forced transparent
	Opaque    map[string]bool // pkg::FuncKey never inlined: deterministic, side-effect free, uninterpreted result
	Havoc     map[string]bool // pkg::FuncKey never inlined: unknown effects (whole heap forgotten)
	Files     []string
	Ghosts    map[string]string // ghost map name -> value sort (int|bool)
	ConstGlobals map[string]string
}

func newContractDB() *ContractDB {
	return &ContractDB{Contracts: map[string]*Contract{}, Pures: map[string]*PureFn{}, Transp: map[string]bool{}, Opaque: map[string]bool{}, Havoc: map[string]bool{}, Ghosts: map[string]string{}, ConstGlobals: map[string]string{}}
}

var labelRe = regexp.MustCompile(`^\[([A-Za-z0-9_.:\-]+)\]\s*`)

var clauseKeywords = map[string]bool{"func": true, "pure": true, "lemma": true, "props": true, "requires": true, "ensures": true, "witness": true, "dispatch": true,
	"modifies": true, "loop": true, "option": true, "assumed": true, "package": true, "transparent": true, "opaque": true,
	"hyp": true, "concl": true, "end": true, "at": true, "interfere": true, "atlock": true, "ghostmap": true, "constglobal": true, "havoc": true}

// parseContractText parses the //@ lines of one file. defaultPkg is the package path the file
// belongs to (for /repo files) or "" (prelude files must use `package` lines).
func (db *ContractDB) parseContractText(file, text, defaultPkg string) error {
	// collect logical clauses
	type lc struct {
		kw, rest string
		line     int
	}
	var clauses []lc
	for ln, raw := range strings.Split(text, "\n") {
		s := strings.TrimSpace(raw)
		if !strings.HasPrefix(s, "//@") {
			continue
		}
		s = strings.TrimSpace(s[3:])
		if s == "" || strings.HasPrefix(s, "#") {
			continue
		}
		// strip trailing comment
		if i := strings.Index(s, " //"); i >= 0 {
			s = strings.TrimSpace(s[:i])
		}
		first := s
		if i := strings.IndexAny(s, " \t"); i >= 0 {
			first = s[:i]
		}
		if clauseKeywords[first] {
			clauses = append(clauses, lc{first, strings.TrimSpace(s[len(first):]), ln + 1})
		} else if len(clauses) > 0 {
			clauses[len(clauses)-1].rest += " " + s
		} else {
			return fmt.Errorf("%s:%d: continuation without clause", file, ln+1)
		}
	}
	pkg := defaultPkg
	var cur *Contract
	var curLemma *Lemma
	mkClause := func(rest string, line int) (Clause, error) {
		c := Clause{}
		if m := labelRe.FindStringSubmatch(rest); m != nil {
			c.Label = m[1]
			rest = rest[len(m[0]):]
		}
		if strings.HasPrefix(rest, "@") {
			if i := strings.IndexAny(rest, " \t"); i > 0 {
				c.Mode = rest[1:i]
				rest = strings.TrimSpace(rest[i:])
			}
		}
		if strings.HasPrefix(rest, "use(") {
			if i := strings.Index(rest, ")"); i > 0 {
				for _, u := range strings.Split(rest[4:i], ",") {
					c.Using = append(c.Using, strings.TrimSpace(u))
				}
				rest = strings.TrimSpace(rest[i+1:])
			}
		}
		c.Src = rest
		e, err := parseSpec(rest)
		if err != nil {
			return c, fmt.Errorf("%s:%d: %v", file, line, err)
		}
		c.E = e
		return c, nil
	}
	for _, c := range clauses {
		switch c.kw {
		case "package":
			pkg = c.rest
			cur, curLemma = nil, nil
		case "transparent":
			for _, f := range strings.Split(c.rest, ",") {
				db.Transp[pkg+"::"+strings.TrimSpace(f)] = true
			}
		case "opaque", "havoc":
			for _, f := range strings.Split(c.rest, ",") {
				f = strings.TrimSpace(f)
				k := pkg + "::" + f
				if strings.Contains(f, "::") {
					k = f
				}
				if c.kw == "opaque" {
					db.Opaque[k] = true
				} else {
					db.Havoc[k] = true
				}
			}
		case "pure":
			// pure name(a T, b U) = expr
			rest := c.rest
			opq := false
			if strings.HasPrefix(rest, "opaque ") {
				// pure opaque p(..) = E : p is replaced by a propositional atom per distinct expansion; obligations are
				// first tried with the atoms uninterpreted and only then with their definitions
				opq = true
				rest = strings.TrimSpace(rest[7:])
			}
			m := regexp.MustCompile(`^([A-Za-z0-9_]+)\(([^)]*)\)\s*=\s*(.*)$`).FindStringSubmatch(rest)
			if m == nil {
				return fmt.Errorf("%s:%d: bad pure definition", file, c.line)
			}
			pf := &PureFn{Pkg: pkg, Name: m[1], Src: m[3], Opaque: opq}
			pf.Params = parseParams(m[2])
			e, err := parseSpec(m[3])
			if err != nil {
				return fmt.Errorf("%s:%d: %v", file, c.line, err)
			}
			pf.Body = e
			db.Pures[pkg+"::"+pf.Name] = pf
			cur, curLemma = nil, nil
		case "lemma":
			m := regexp.MustCompile(`^([A-Za-z0-9_.]+)\s*\(([^)]*)\)\s*$`).FindStringSubmatch(c.rest)
			if m == nil {
				return fmt.Errorf("%s:%d: bad lemma header", file, c.line)
			}
			curLemma = &Lemma{Pkg: pkg, Name: m[1], Params: parseParams(m[2]), File: file}
			db.Lemmas = append(db.Lemmas, curLemma)
			cur = nil
		case "hyp", "concl":
			if curLemma == nil {
				return fmt.Errorf("%s:%d: %s outside lemma", file, c.line, c.kw)
			}
			cl, err := mkClause(c.rest, c.line)
			if err != nil {
				return err
			}
			if c.kw == "hyp" {
				curLemma.Hyps = append(curLemma.Hyps, cl)
			} else {
				curLemma.Concl = append(curLemma.Concl, cl)
			}
		case "func":
			key := strings.TrimSpace(c.rest)
			cur = &Contract{Pkg: pkg, FuncKey: key, Modes: map[string]string{}, Ats: map[string][]Clause{}, Loops: map[int][]Clause{}, LoopAssume: map[int][]Clause{}, LoopMod: map[int][]string{}, LoopIso: map[int]bool{}, Options: map[string]string{}, File: file, Line: c.line}
			if old, dup := db.Contracts[pkg+"::"+key]; dup {
				return fmt.Errorf("%s:%d: duplicate contract for %s (also %s:%d)", file, c.line, key, old.File, old.Line)
			}
			db.Contracts[pkg+"::"+key] = cur
			curLemma = nil
		case "props":
			ps := strings.Fields(strings.ReplaceAll(c.rest, ",", " "))
			if cur != nil {
				cur.Props = append(cur.Props, ps...)
			} else if curLemma != nil {
				curLemma.Props = append(curLemma.Props, ps...)
			}
		case "assumed":
			if cur == nil {
				return fmt.Errorf("%s:%d: assumed outside func", file, c.line)
			}
			cur.Assumed = true
		case "requires", "ensures", "witness":
			if cur == nil {
				return fmt.Errorf("%s:%d: %s outside func", file, c.line, c.kw)
			}
			cl, err := mkClause(c.rest, c.line)
			if err != nil {
				return err
			}
			if c.kw == "witness" {
				if !strings.HasPrefix(cl.Src, "forall ") || !strings.Contains(cl.Src, "result") || !(strings.Contains(cl.Src, "uf(") || strings.Contains(cl.Src, "ufptr(")) {
					return fmt.Errorf("%s:%d: a witness clause must define a uf/ufptr function of `result`: forall v :: uf(..result..v) == E", file, c.line)
				}
				cur.Witness = append(cur.Witness, cl)
				continue
			}
			if c.kw == "requires" {
				cur.Requires = append(cur.Requires, cl)
			} else {
				cur.Ensures = append(cur.Ensures, cl)
			}
		case "modifies":
			if cur == nil {
				return fmt.Errorf("%s:%d: modifies outside func", file, c.line)
			}
			cur.ModGiven = true
			for _, it := range splitTop(c.rest) {
				it = strings.TrimSpace(it)
				if it != "" && it != "nothing" {
					cur.Modifies = append(cur.Modifies, it)
				}
			}
		case "loop":
			if cur == nil {
				return fmt.Errorf("%s:%d: loop outside func", file, c.line)
			}
			f := strings.Fields(c.rest)
			if len(f) == 2 && f[1] == "isolated" {
				// loop N isolated: the body is verified from the requires, the loop frame and the invariants alone
				if n, err := strconv.Atoi(f[0]); err == nil {
					cur.LoopIso[n] = true
					continue
				}
			}
			if len(f) < 3 {
				return fmt.Errorf("%s:%d: bad loop clause", file, c.line)
			}
			n, err := strconv.Atoi(f[0])
			if err != nil {
				return fmt.Errorf("%s:%d: bad loop ordinal", file, c.line)
			}
			rest := strings.TrimSpace(strings.TrimPrefix(strings.TrimSpace(strings.TrimPrefix(c.rest, f[0])), f[1]))
			switch f[1] {
			case "invariant":
				cl, err := mkClause(rest, c.line)
				if err != nil {
					return err
				}
				cur.Loops[n] = append(cur.Loops[n], cl)
			case "modifies":
				for _, it := range splitTop(rest) {
					cur.LoopMod[n] = append(cur.LoopMod[n], strings.TrimSpace(it))
				}
			case "assume":
				cl, err := mkClause(rest, c.line)
				if err != nil {
					return err
				}
				cur.LoopAssume[n] = append(cur.LoopAssume[n], cl)
			default:
				return fmt.Errorf("%s:%d: unknown loop clause %s", file, c.line, f[1])
			}
		case "at":
			// at NAME K assert EXPR
			f := strings.Fields(c.rest)
			if cur != nil && (len(f) == 4 || (len(f) == 6 && f[4] == "when")) && f[2] == "mode" {
				// at NAME K mode M [when R] : the call uses the callee's contract in mode M (its @M clauses apply);
				// with `when R` only while this function itself is being proved in mode R
				v := f[3]
				if len(f) == 6 {
					v += "@" + f[5]
				}
				cur.Modes[f[0]+"#"+f[1]] = v
				continue
			}
			if cur != nil && len(f) >= 4 && f[2] == "invariant" {
				// at NAME K invariant EXPR : invariant of the visit loop of a modelled iteration function (free: itk, itn, itseq)
				rest := strings.TrimSpace(c.rest[strings.Index(c.rest, " invariant ")+11:])
				cl, err := mkClause(rest, c.line)
				if err != nil {
					return err
				}
				key := f[0] + "#" + f[1] + "!inv"
				cur.Ats[key] = append(cur.Ats[key], cl)
				continue
			}
			if cur == nil || len(f) < 4 || !(f[2] == "assert" || (f[2] == "after" && f[3] == "assert")) {
				return fmt.Errorf("%s:%d: bad at clause (at NAME K [after] assert EXPR)", file, c.line)
			}
			rest := strings.TrimSpace(c.rest[strings.Index(c.rest, " assert ")+8:])
			cl, err := mkClause(rest, c.line)
			if err != nil {
				return err
			}
			key := f[0] + "#" + f[1]
			if f[2] == "after" {
				key += "!after"
			}
			cur.Ats[key] = append(cur.Ats[key], cl)
		case "interfere":
			// interfere A, B [unless held EXPR] : PRED
			if cur == nil {
				return fmt.Errorf("%s:%d: interfere outside func", file, c.line)
			}
			i := strings.Index(c.rest, " : ")
			if i < 0 {
				return fmt.Errorf("%s:%d: bad interfere clause", file, c.line)
			}
			head, pred := c.rest[:i], strings.TrimSpace(c.rest[i+3:])
			itf := Interference{}
			// interfere A, B [unless held EXPR] [havoc ITEMS] : PRED
			if j := strings.Index(head, " havoc "); j >= 0 {
				for _, it := range strings.Split(head[j+7:], ",") {
					itf.Havoc = append(itf.Havoc, strings.TrimSpace(it))
				}
				head = head[:j]
			}
			if j := strings.Index(head, " unless held "); j >= 0 {
				itf.Lock = strings.TrimSpace(head[j+13:])
				head = head[:j]
			}
			for _, n := range strings.Split(head, ",") {
				itf.Callees = append(itf.Callees, strings.TrimSpace(n))
			}
			cl, err := mkClause(pred, c.line)
			if err != nil {
				return err
			}
			itf.Pred = cl
			cur.Interf = append(cur.Interf, itf)
		case "atlock":
			// atlock LOCKEXPR havoc ITEMS [: RELY]
			if cur == nil {
				return fmt.Errorf("%s:%d: atlock outside func", file, c.line)
			}
			rest := c.rest
			al := AtLock{}
			if i := strings.Index(rest, " : "); i >= 0 {
				cl, err := mkClause(strings.TrimSpace(rest[i+3:]), c.line)
				if err != nil {
					return err
				}
				al.Pred = &cl
				rest = rest[:i]
			}
			j := strings.Index(rest, " havoc ")
			if j < 0 {
				return fmt.Errorf("%s:%d: bad atlock clause", file, c.line)
			}
			al.Lock = strings.TrimSpace(rest[:j])
			for _, n := range strings.Split(rest[j+7:], ",") {
				al.Items = append(al.Items, strings.TrimSpace(n))
			}
			cur.AtLocks = append(cur.AtLocks, al)
		case "dispatch":
			f := strings.Fields(c.rest)
			if cur == nil || !(len(f) == 2 || (len(f) == 4 && f[2] == "for")) || !strings.Contains(f[0], ".") {
				return fmt.Errorf("%s:%d: bad dispatch clause (dispatch IFACE.METHOD UF [for TYPE])", file, c.line)
			}
			k := strings.LastIndex(f[0], ".")
			dr := DispatchRule{Iface: f[0][:k], Method: f[0][k+1:], UF: f[1]}
			if len(f) == 4 {
				dr.ForType = f[3]
			}
			cur.Dispatch = append(cur.Dispatch, dr)
		case "ghostmap":
			// ghostmap NAME int|bool|int2|bool2
			f := strings.Fields(c.rest)
			if len(f) != 2 {
				return fmt.Errorf("%s:%d: bad ghostmap", file, c.line)
			}
			db.Ghosts[f[0]] = f[1]
		case "constglobal":
			// constglobal pkgpath.Name zero
			f := strings.Fields(c.rest)
			if len(f) != 2 || (f[1] != "zero" && f[1] != "init") {
				return fmt.Errorf("%s:%d: bad constglobal", file, c.line)
			}
			db.ConstGlobals[f[0]] = f[1]
		case "option":
			f := strings.Fields(c.rest)
			if cur == nil || len(f) < 1 {
				return fmt.Errorf("%s:%d: bad option", file, c.line)
			}
			v := "true"
			if len(f) > 1 {
				v = strings.Join(f[1:], " ")
			}
			cur.Options[f[0]] = v
		case "end":
			cur, curLemma = nil, nil
		}
	}
	db.Files = append(db.Files, file)
	return nil
}

func parseParams(s string) []Param {
	var ps []Param
	for _, p := range splitTop(s) {
		p = strings.TrimSpace(p)
		if p == "" {
			continue
		}
		i := strings.IndexAny(p, " \t")
		if i < 0 {
			ps = append(ps, Param{Name: p, Type: "int"})
		} else {
			ps = append(ps, Param{Name: p[:i], Type: strings.TrimSpace(p[i:])})
		}
	}
	return ps
}

// splitTop splits on commas at paren/bracket depth 0.
func splitTop(s string) []string {
	var out []string
	depth := 0
	last := 0
	for i, c := range s {
		switch c {
		case '(', '[':
			depth++
		case ')', ']':
			depth--
		case ',':
			if depth == 0 {
				out = append(out, s[last:i])
				last = i + 1
			}
		}
	}
	out = append(out, s[last:])
	return out
}

// loadContractFiles reads every zz_verif_contracts*.go file under the given package dirs and the prelude.
func (db *ContractDB) loadPrelude(dir string) error {
	files, _ := filepath.Glob(filepath.Join(dir, "*.spec"))
	sort.Strings(files)
	for _, f := range files {
		b, err := os.ReadFile(f)
		if err != nil {
			return err
		}
		if err := db.parseContractText(f, string(b), ""); err != nil {
			return err
		}
	}
	return nil
}
