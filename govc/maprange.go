package main

import (
	"fmt"
	"go/types"
	"sort"
	"strings"

	"golang.org/x/tools/go/ssa"
)

// Map ranges with a ghost "produced keys" set.
//
// Go's rule: every key that is in the map for the whole duration of a `range` is produced exactly once; a key
// removed before it is reached is not produced; a key created during the iteration may or may not be produced.
// Model: at the Range instruction the domain row and the map's version counter are recorded and a ghost set
// `X:visit:<n>` starts empty.  Every Next that yields a key k assumes that k is in the map now and has not been
// produced before, and adds it to the set.  When Next reports exhaustion and the map's version counter still has
// the value it had at the Range instruction (no insertion or deletion happened in between - every MapUpdate and
// delete executed by the engine bumps the counter, every contract that may modify the map's contents havocs it),
// every key of the recorded domain has been produced.  The set is havocked at the head of the loop that contains
// the Next (the invariant speaks about it through the spec builtin visited(m, k)).
type mapRangeInfo struct {
	name   string // ghost heap name X:visit:<n>
	m      T      // the map reference
	dom0   T      // domain row at the Range instruction
	ver0   T      // version at the Range instruction
	mt     *types.Map
	rng    *ssa.Range
	serial int
}

func mapVerName(mt *types.Map) string { return heapName("M", types.TypeString(mt, nil), "ver") }

func (s *Session) bumpMapVersion(st *State, mt *types.Map, m T) {
	n := mapVerName(mt)
	ver := s.heapGet(st, n, arrSort(SInt))
	st.Heap[n] = s.define("H", Store(ver, m, Add(Select(ver, m), I(1))))
}

func (s *Session) mapRangeStart(fr *Frame, x *ssa.Range, mt *types.Map, st *State) {
	if s.mapRanges == nil {
		s.mapRanges = map[*Frame]map[*ssa.Range]*mapRangeInfo{}
	}
	if s.mapRanges[fr] == nil {
		s.mapRanges[fr] = map[*ssa.Range]*mapRangeInfo{}
	}
	s.nfresh++
	m := s.valueOf(fr, x.X).T0()
	domN, _, _, _, _ := s.mapHeaps(st, mt)
	dom := s.heapGet(st, domN, arrSort(arrSort(SBool)))
	ver := s.heapGet(st, mapVerName(mt), arrSort(SInt))
	info := &mapRangeInfo{name: fmt.Sprintf("X:visit:%d", s.nfresh), m: m, mt: mt, rng: x, serial: s.nfresh,
		dom0: s.define("dom0", Select(dom, m)), ver0: s.define("ver0", Select(ver, m))}
	s.mapRanges[fr][x] = info
	st.Sorts[info.name] = arrSort(SBool)
	st.Heap[info.name] = s.define("visit", T{"((as const (Array Int Bool)) false)", arrSort(SBool)})
}

func (s *Session) mapRangeNext(fr *Frame, x *ssa.Next, mt *types.Map, m, k, ok T, st *State) {
	rng, isR := x.Iter.(*ssa.Range)
	if !isR || s.mapRanges == nil || s.mapRanges[fr] == nil {
		return
	}
	info := s.mapRanges[fr][rng]
	if info == nil {
		return
	}
	vis := s.heapGet(st, info.name, arrSort(SBool))
	// a produced key has not been produced before
	s.assume(Imp(And(st.Reach, ok), Not(Select(vis, k))))
	// exhaustion: if nothing was inserted or deleted since the Range instruction, every key was produced
	ver := s.heapGet(st, mapVerName(mt), arrSort(SInt))
	s.nfresh++
	q := fmt.Sprintf("vk!%d", s.nfresh)
	all := T{fmt.Sprintf("(forall ((%s Int)) (! (=> (select %s %s) (select %s %s)) :pattern ((select %s %s)) :pattern ((select %s %s))))", q, info.dom0.S, q, vis.S, q, info.dom0.S, q, vis.S, q), SBool}
	s.assume(Imp(And(st.Reach, Not(ok), Eq(Select(ver, info.m), info.ver0)), all))
	st.Heap[info.name] = s.define("visit", Ite(ok, Store(vis, k, TTrue), vis))
}

// havocVisitGhosts: at a loop head, the produced-key sets of the map ranges whose Next lies inside the loop are unknown.
func (s *Session) havocVisitGhosts(fr *Frame, lb map[*ssa.BasicBlock]bool, st *State) {
	if s.mapRanges == nil || s.mapRanges[fr] == nil {
		return
	}
	var infos []*mapRangeInfo
	for _, info := range s.mapRanges[fr] {
		infos = append(infos, info)
	}
	sort.Slice(infos, func(i, j int) bool { return infos[i].serial < infos[j].serial })
	for _, info := range infos {
		if _, present := st.Heap[info.name]; !present {
			continue
		}
		inside := false
		if refs := info.rng.Referrers(); refs != nil {
			for _, r := range *refs {
				if nx, ok := r.(*ssa.Next); ok && lb[nx.Block()] {
					inside = true
				}
			}
		}
		if inside {
			s.havocHeap(st, info.name, arrSort(SBool))
		}
	}
}

// visitedSet: the produced-key set of the latest range over the map denoted by term m (spec builtin visited(m, k)).
func (s *Session) visitedFormula(fr *Frame, st *State, m, k T) (T, bool) {
	if s.mapRanges == nil || fr == nil || s.mapRanges[fr] == nil {
		return T{}, false
	}
	var best *mapRangeInfo
	var cands []*mapRangeInfo
	for _, info := range s.mapRanges[fr] {
		if _, present := st.Heap[info.name]; !present {
			continue
		}
		cands = append(cands, info)
		if info.m.S != m.S {
			continue
		}
		if best == nil || info.serial > best.serial {
			best = info
		}
	}
	if best == nil {
		// no syntactic match: the set of each candidate range, guarded by "it is a range over this very map"
		sort.Slice(cands, func(i, j int) bool { return cands[i].serial > cands[j].serial })
		if len(cands) == 0 {
			return T{}, false
		}
		f := TFalse
		for i := len(cands) - 1; i >= 0; i-- {
			vis := s.heapGet(st, cands[i].name, arrSort(SBool))
			f = Ite(Eq(cands[i].m, m), Select(vis, k), f)
		}
		return f, true
	}
	return Select(s.heapGet(st, best.name, arrSort(SBool)), k), true
}

var _ = strings.HasPrefix
