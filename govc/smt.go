package main

import (
	"bytes"
	"math/big"
	"context"
	"fmt"
	"os"
	"os/exec"
	"strings"
	"sync"
	"time"
)

// T is an SMT-LIB term with its sort.
type T struct {
	S    string
	Sort string
}

const (
	SInt  = "Int"
	SBool = "Bool"
)

func arrSort(elem string) string { return "(Array Int " + elem + ")" }
func isArr(s string) bool        { return strings.HasPrefix(s, "(Array Int ") }
func arrElem(s string) string    { return strings.TrimSuffix(strings.TrimPrefix(s, "(Array Int "), ")") }

func I(n int64) T {
	if n < 0 {
		return T{fmt.Sprintf("(- %d)", -n), SInt}
	}
	return T{fmt.Sprintf("%d", n), SInt}
}
func IStr(dec string) T {
	if strings.HasPrefix(dec, "-") {
		return T{"(- " + dec[1:] + ")", SInt}
	}
	return T{dec, SInt}
}

var (
	TTrue  = T{"true", SBool}
	TFalse = T{"false", SBool}
)

func B(b bool) T {
	if b {
		return TTrue
	}
	return TFalse
}

func app(sort string, op string, args ...T) T {
	var sb strings.Builder
	sb.WriteString("(")
	sb.WriteString(op)
	for _, a := range args {
		sb.WriteString(" ")
		sb.WriteString(a.S)
	}
	sb.WriteString(")")
	return T{sb.String(), sort}
}

func And(xs ...T) T {
	var ys []T
	for _, x := range xs {
		if x.S == "true" {
			continue
		}
		if x.S == "false" {
			return TFalse
		}
		ys = append(ys, x)
	}
	if len(ys) == 0 {
		return TTrue
	}
	if len(ys) == 1 {
		return ys[0]
	}
	return app(SBool, "and", ys...)
}
func Or(xs ...T) T {
	var ys []T
	for _, x := range xs {
		if x.S == "false" {
			continue
		}
		if x.S == "true" {
			return TTrue
		}
		ys = append(ys, x)
	}
	if len(ys) == 0 {
		return TFalse
	}
	if len(ys) == 1 {
		return ys[0]
	}
	return app(SBool, "or", ys...)
}
func Not(x T) T {
	if x.S == "true" {
		return TFalse
	}
	if x.S == "false" {
		return TTrue
	}
	if strings.HasPrefix(x.S, "(not ") {
		return T{x.S[5 : len(x.S)-1], SBool}
	}
	return app(SBool, "not", x)
}
func Imp(a, b T) T {
	if a.S == "true" {
		return b
	}
	if a.S == "false" || b.S == "true" {
		return TTrue
	}
	return app(SBool, "=>", a, b)
}
func Eq(a, b T) T {
	if a.S == b.S {
		return TTrue
	}
	if a.Sort == SInt && b.Sort == SInt && isNumeral(a.S) && isNumeral(b.S) {
		return TFalse // two different numerals
	}
	return app(SBool, "=", a, b)
}
func Ite(c, a, b T) T {
	if c.S == "true" {
		return a
	}
	if c.S == "false" {
		return b
	}
	if a.S == b.S {
		return a
	}
	return app(a.Sort, "ite", c, a, b)
}
func numVal(t T) (*big.Int, bool) {
	if t.Sort != SInt {
		return nil, false
	}
	s := t.S
	neg := false
	if strings.HasPrefix(s, "(- ") && strings.HasSuffix(s, ")") && !strings.Contains(s[3:], " ") {
		neg = true
		s = s[3 : len(s)-1]
	}
	if s == "" {
		return nil, false
	}
	for _, c := range s {
		if c < '0' || c > '9' {
			return nil, false
		}
	}
	b, ok := new(big.Int).SetString(s, 10)
	if !ok {
		return nil, false
	}
	if neg {
		b.Neg(b)
	}
	return b, true
}
func Add(a, b T) T {
	x, okx := numVal(a)
	y, oky := numVal(b)
	if okx && oky {
		return IStr(new(big.Int).Add(x, y).String())
	}
	if okx && x.Sign() == 0 {
		return b
	}
	if oky && y.Sign() == 0 {
		return a
	}
	return app(SInt, "+", a, b)
}
func Sub(a, b T) T {
	x, okx := numVal(a)
	y, oky := numVal(b)
	if okx && oky {
		return IStr(new(big.Int).Sub(x, y).String())
	}
	if oky && y.Sign() == 0 {
		return a
	}
	return app(SInt, "-", a, b)
}
func Mul(a, b T) T  { return app(SInt, "*", a, b) }
// comparisons of two small non-negative numerals are decided while the VC is built
func cmpFold(op string, a, b T) (T, bool) {
	if a.Sort == SInt && b.Sort == SInt && isNumeral(a.S) && isNumeral(b.S) && len(a.S) < 18 && len(b.S) < 18 {
		x, y := atoi(a.S), atoi(b.S)
		var r bool
		switch op {
		case "<":
			r = x < y
		case "<=":
			r = x <= y
		case ">":
			r = x > y
		case ">=":
			r = x >= y
		}
		return B(r), true
	}
	return T{}, false
}
func Lt(a, b T) T {
	if r, ok := cmpFold("<", a, b); ok {
		return r
	}
	return app(SBool, "<", a, b)
}
func Le(a, b T) T {
	if r, ok := cmpFold("<=", a, b); ok {
		return r
	}
	return app(SBool, "<=", a, b)
}
func Gt(a, b T) T {
	if r, ok := cmpFold(">", a, b); ok {
		return r
	}
	return app(SBool, ">", a, b)
}
func Ge(a, b T) T {
	if r, ok := cmpFold(">=", a, b); ok {
		return r
	}
	return app(SBool, ">=", a, b)
}
func Neg(a T) T     { return app(SInt, "-", a) }
func Select(a, i T) T { return app(arrElem(a.Sort), "select", a, i) }
func Store(a, i, v T) T { return app(a.Sort, "store", a, i, v) }

// ---- solver portfolio ----

type SolveResult struct {
	Status  string // unsat | sat | unknown | timeout | error
	Backend string
	Secs    float64
	Output  string
}

type solverSpec struct {
	name string
	args func(file string, timeoutS int) []string
}

var solvers = []solverSpec{
	{"z3-new", func(f string, t int) []string { return []string{"z3-new", fmt.Sprintf("-T:%d", t), f} }},
	{"cvc5", func(f string, t int) []string {
		return []string{"cvc5", "--produce-models", fmt.Sprintf("--tlimit=%d", t*1000), f}
	}},
	{"z3", func(f string, t int) []string { return []string{"z3", fmt.Sprintf("-T:%d", t), f} }},
}

func runOne(sp solverSpec, file string, timeoutS int, ctx context.Context) SolveResult {
	args := sp.args(file, timeoutS)
	c, cancel := context.WithTimeout(ctx, time.Duration(timeoutS+2)*time.Second)
	defer cancel()
	cmd := exec.CommandContext(c, args[0], args[1:]...)
	var out bytes.Buffer
	cmd.Stdout = &out
	cmd.Stderr = &out
	t0 := time.Now()
	_ = cmd.Run()
	secs := time.Since(t0).Seconds()
	o := out.String()
	for strings.HasPrefix(o, "WARNING") {
		if i := strings.Index(o, "\n"); i >= 0 {
			o = o[i+1:]
		} else {
			o = ""
		}
	}
	first := strings.TrimSpace(strings.SplitN(o+"\n", "\n", 2)[0])
	st := "unknown"
	switch first {
	case "unsat":
		st = "unsat"
	case "sat":
		st = "sat"
	case "unknown":
		st = "unknown"
	case "timeout":
		st = "timeout"
	default:
		if strings.Contains(o, "timeout") || c.Err() != nil {
			st = "timeout"
		} else if strings.Contains(first, "error") || strings.Contains(first, "Error") {
			st = "error"
		}
	}
	return SolveResult{Status: st, Backend: sp.name, Secs: secs, Output: o}
}

// solvePortfolio races the solvers; first definitive (sat/unsat) answer wins.
func solvePortfolio(file string, timeoutS int, race bool) SolveResult {
	if !race {
		var last SolveResult
		for _, sp := range solvers {
			r := runOne(sp, file, timeoutS, context.Background())
			if r.Status == "unsat" || r.Status == "sat" {
				return r
			}
			if last.Backend == "" || r.Status != "error" {
				last = r
			}
		}
		return last
	}
	ctx, cancel := context.WithCancel(context.Background())
	defer cancel()
	ch := make(chan SolveResult, len(solvers))
	for _, sp := range solvers {
		sp := sp
		go func() { ch <- runOne(sp, file, timeoutS, ctx) }()
	}
	var last SolveResult
	for range solvers {
		r := <-ch
		if r.Status == "unsat" || r.Status == "sat" {
			return r
		}
		if last.Backend == "" || (last.Status == "error" && r.Status != "error") {
			last = r
		}
	}
	return last
}

var solverSem = make(chan struct{}, 12)
var solverMu sync.Mutex

func writeFile(path, content string) error { return os.WriteFile(path, []byte(content), 0o644) }
