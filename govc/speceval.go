package main

import (
	"os"
	"runtime/debug"
	"strconv"
	"fmt"
	"go/constant"
	"go/types"
	"math/big"
	"strings"

	"golang.org/x/tools/go/ssa"
)

var (
	minInt64 = new(big.Int).Neg(pow2big(63))
	maxInt64 = new(big.Int).Sub(pow2big(63), big.NewInt(1))
	// no Go slice is longer than the largest possible allocation (2^48 bytes on amd64)
	maxSliceLen = pow2big(48)
)

type SpecEnv struct {
	sess   *Session
	pkg    *types.Package
	vars   map[string]Val
	lookup func(name string) (Val, bool)
	lookupCell func(name string) (Val, bool) // variables kept in memory cells: a parameter that is reassigned lives in one
	lookupLoc  func(name string) (*Loc, bool) // the memory cell itself (for modifies items naming a field of a local struct)
	st     *State
	old    *State
	pre    *State // state at the entry of the loop whose invariant is being evaluated (for pre(E))
	fr     *Frame // for calling Go functions from specs (optional)
	depth  int
}

type specErr struct{ msg string }

func specFail(format string, a ...interface{}) {
	if os.Getenv("GOVC_DEBUG") != "" {
		debug.PrintStack()
	}
	panic(specErr{fmt.Sprintf(format, a...)})
}

func (s *Session) evalBool(se *SpecEnv, e SExpr) T {
	v := s.evalSpec(se, e)
	if len(v.L) != 1 || v.L[0].Sort != SBool {
		specFail("boolean expected, got %v", v.Typ)
	}
	return v.L[0]
}

func untypedInt(t T) Val  { return Val{Typ: types.Typ[types.UntypedInt], L: []T{t}} }
func boolVal(t T) Val     { return Val{Typ: types.Typ[types.Bool], L: []T{t}} }
func realVal(t T) Val     { return Val{Typ: types.Typ[types.Float64], L: []T{t}} }

func (se *SpecEnv) with(vars map[string]Val) *SpecEnv {
	n := *se
	n.vars = map[string]Val{}
	for k, v := range se.vars {
		n.vars[k] = v
	}
	for k, v := range vars {
		n.vars[k] = v
	}
	return &n
}

func (s *Session) resolveType(pkg *types.Package, name string) types.Type {
	name = strings.TrimSpace(name)
	if strings.HasPrefix(name, "*") {
		return types.NewPointer(s.resolveType(pkg, name[1:]))
	}
	if strings.HasPrefix(name, "[]") {
		return types.NewSlice(s.resolveType(pkg, name[2:]))
	}
	switch name {
	case "int":
		return types.Typ[types.UntypedInt] // mathematical integer in specs
	case "bool":
		return types.Typ[types.Bool]
	case "string":
		return types.Typ[types.String]
	case "real", "float64":
		return types.Typ[types.Float64]
	}
	for _, b := range types.Typ {
		if b.Name() == name {
			return b
		}
	}
	if i := strings.LastIndex(name, "."); i >= 0 {
		pn, tn := name[:i], name[i+1:]
		// imported package by name or path
		if pkg != nil {
			for _, imp := range pkg.Imports() {
				if imp.Name() == pn || imp.Path() == pn {
					if o := imp.Scope().Lookup(tn); o != nil {
						return o.Type()
					}
				}
			}
		}
		if p := s.eng.typesPkg(pn); p != nil {
			if o := p.Scope().Lookup(tn); o != nil {
				return o.Type()
			}
		}
		// any loaded package of that name (contracts of a library may name the types of its user)
		if p := s.eng.typesPkgByName(pn); p != nil {
			if o := p.Scope().Lookup(tn); o != nil {
				return o.Type()
			}
		}
	}
	if pkg != nil {
		if o := pkg.Scope().Lookup(name); o != nil {
			if tn, ok := o.(*types.TypeName); ok {
				return tn.Type()
			}
		}
	}
	specFail("unknown type %q", name)
	return nil
}

func (s *Session) evalSpec(se *SpecEnv, e SExpr) Val {
	switch x := e.(type) {
	case *SNum:
		if strings.HasPrefix(x.V, "0x") {
			b, _ := new(big.Int).SetString(x.V[2:], 16)
			return untypedInt(bigT(b))
		}
		return untypedInt(IStr(x.V))
	case *SStr:
		return scalar(types.Typ[types.String], s.strLit(x.V))
	case *SIdent:
		return s.evalIdent(se, x.Name)
	case *SUn:
		v := s.evalSpec(se, x.X)
		switch x.Op {
		case "!":
			return boolVal(Not(v.T0()))
		case "-":
			if v.L[0].Sort == "Real" {
				return realVal(app("Real", "-", v.T0()))
			}
			return untypedInt(Neg(v.T0()))
		}
	case *SBin:
		return s.evalBin(se, x)
	case *SSel:
		// package-qualified constant / global?
		if id, ok := x.X.(*SIdent); ok {
			if _, isVar := s.lookupVar(se, id.Name); !isVar {
				if v, ok2 := s.pkgMember(se, id.Name, x.Name); ok2 {
					return v
				}
			}
		}
		base := s.evalSpec(se, x.X)
		return s.selectField(se, base, x.Name)
	case *SIdx:
		base := s.evalSpec(se, x.X)
		idx := s.evalSpec(se, x.I)
		return s.indexVal(se, base, idx)
	case *SUpd:
		base := s.evalSpec(se, x.X)
		idx := s.evalSpec(se, x.I)
		v := s.evalSpec(se, x.V)
		if len(base.L) == 1 && isArr(base.L[0].Sort) {
			return Val{Typ: base.Typ, L: []T{Store(base.L[0], idx.T0(), v.T0())}}
		}
		specFail("update on non-array value")
	case *SSlice:
		base := s.evalSpec(se, x.X)
		if len(base.L) != 3 {
			specFail("slice expression on non-slice")
		}
		lo := I(0)
		hi := base.L[2]
		if x.Lo != nil {
			lo = s.evalSpec(se, x.Lo).T0()
		}
		if x.Hi != nil {
			hi = s.evalSpec(se, x.Hi).T0()
		}
		return Val{Typ: base.Typ, L: []T{base.L[0], Add(base.L[1], lo), Sub(hi, lo)}}
	case *SCall:
		return s.evalCall(se, x)
	case *SQuant:
		s.noDefine++
		defer func() { s.noDefine-- }()
		vars := map[string]Val{}
		var binders []string
		for i, vn := range x.Vars {
			s.nfresh++
			bn := fmt.Sprintf("%s!q%d", vn, s.nfresh)
			sort := SInt
			var typ types.Type = types.Typ[types.UntypedInt]
			if x.Sorts[i] == "bool" {
				sort = SBool
				typ = types.Typ[types.Bool]
			} else if x.Sorts[i] != "int" {
				typ = s.resolveType(se.pkg, x.Sorts[i])
			}
			vars[vn] = Val{Typ: typ, L: []T{{qsym(bn), sort}}}
			binders = append(binders, fmt.Sprintf("(%s %s)", qsym(bn), sort))
		}
		inner := se.with(vars)
		body := s.evalBool(inner, x.Body)
		q := "forall"
		if !x.Forall {
			q = "exists"
		}
		if len(x.Pats) > 0 {
			var ps []string
			for _, pe := range x.Pats {
				pv := s.materialize(s.evalSpec(inner, pe))
				ps = append(ps, patTerm(pv.L[0].S))
			}
			return boolVal(T{fmt.Sprintf("(%s (%s) (! %s :pattern (%s)))", q, strings.Join(binders, " "), body.S, strings.Join(ps, " ")), SBool})
		}
		return boolVal(T{fmt.Sprintf("(%s (%s) %s)", q, strings.Join(binders, " "), body.S), SBool})
	}
	specFail("cannot evaluate %T", e)
	return Val{}
}

func (s *Session) lookupVar(se *SpecEnv, name string) (Val, bool) {
	if se.fr != nil && se.lookup != nil && se.fr.fn != nil {
		// a parameter that is reassigned in the body: its current value is the latest SSA definition (a phi at a
		// loop head, or the content of its cell when its address is taken), not the value it had at entry
		for _, p := range se.fr.fn.Params {
			if p.Name() == name {
				if v, ok := se.lookup(name); ok {
					return v, true
				}
			}
		}
	}
	if v, ok := se.vars[name]; ok {
		return v, true
	}
	if se.lookup != nil {
		if v, ok := se.lookup(name); ok {
			return v, true
		}
	}
	return Val{}, false
}

func (s *Session) evalIdent(se *SpecEnv, name string) Val {
	switch name {
	case "true":
		return boolVal(TTrue)
	case "false":
		return boolVal(TFalse)
	case "nil":
		return Val{Typ: types.Typ[types.UntypedNil], L: []T{I(0)}}
	case "MaxUint64":
		return untypedInt(bigT(new(big.Int).Sub(pow2big(64), big.NewInt(1))))
	case "MaxInt64":
		return untypedInt(bigT(maxInt64))
	case "MinInt64":
		return untypedInt(bigT(minInt64))
	case "MaxUint32":
		return untypedInt(bigT(new(big.Int).Sub(pow2big(32), big.NewInt(1))))
	case "MaxInt32":
		return untypedInt(bigT(new(big.Int).Sub(pow2big(31), big.NewInt(1))))
	}
	if v, ok := s.lookupVar(se, name); ok {
		return v
	}
	if _, ok := s.eng.db.Ghosts[name]; ok {
		return Val{Typ: nil, L: []T{s.ghostGet(se.st, name)}}
	}
	if _, ok := etcdGhosts[name]; ok {
		return Val{Typ: nil, L: []T{s.ghostGet(se.st, name)}}
	}
	// package-level constant or variable
	if se.pkg != nil {
		if o := se.pkg.Scope().Lookup(name); o != nil {
			if v, ok := s.objVal(se, o); ok {
				return v
			}
		}
	}
	specFail("unknown identifier %q", name)
	return Val{}
}

func (s *Session) objVal(se *SpecEnv, o types.Object) (Val, bool) {
	switch ob := o.(type) {
	case *types.Const:
		return s.constToVal(ob.Type(), ob.Val()), true
	case *types.Var:
		loc := &Loc{Kind: "G", TypeKey: ob.Pkg().Path() + "." + ob.Name(), Ref: I(0), Typ: ob.Type()}
		return s.load(se.st, loc), true
	}
	return Val{}, false
}

func (s *Session) constToVal(t types.Type, v constant.Value) Val {
	switch v.Kind() {
	case constant.Bool:
		return boolVal(B(constant.BoolVal(v)))
	case constant.String:
		return scalar(types.Typ[types.String], s.strLit(constant.StringVal(v)))
	case constant.Int:
		if isFloat(t) {
			return scalar(t, T{v.ExactString() + ".0", "Real"})
		}
		return Val{Typ: t, L: []T{IStr(v.ExactString())}}
	case constant.Float:
		return realVal(realConst(v))
	}
	specFail("unsupported constant kind")
	return Val{}
}

func (s *Session) pkgMember(se *SpecEnv, pkgName, member string) (Val, bool) {
	var p *types.Package
	if se.pkg != nil {
		for _, imp := range se.pkg.Imports() {
			if imp.Name() == pkgName {
				p = imp
			}
		}
	}
	if p == nil {
		p = s.eng.typesPkgByName(pkgName)
	}
	if p == nil {
		return Val{}, false
	}
	o := p.Scope().Lookup(member)
	if o == nil {
		return Val{}, false
	}
	return s.objVal(se, o)
}

func isRealVal(v Val) bool { return len(v.L) == 1 && v.L[0].Sort == "Real" }

func (s *Session) evalBin(se *SpecEnv, x *SBin) Val {
	switch x.Op {
	case "&&":
		return boolVal(And(s.evalBool(se, x.L), s.evalBool(se, x.R)))
	case "||":
		return boolVal(Or(s.evalBool(se, x.L), s.evalBool(se, x.R)))
	case "==>":
		return boolVal(Imp(s.evalBool(se, x.L), s.evalBool(se, x.R)))
	case "<==>":
		return boolVal(Eq(s.evalBool(se, x.L), s.evalBool(se, x.R)))
	}
	l := s.evalSpec(se, x.L)
	r := s.evalSpec(se, x.R)
	switch x.Op {
	case "==", "!=":
		l, r = s.materialize(l), s.materialize(r)
		if isRealVal(l) != isRealVal(r) {
			l, r = toReal(l), toReal(r)
		}
		if len(l.L) != len(r.L) {
			// nil compared with slice / interface etc.
			if r.Typ == types.Typ[types.UntypedNil] && len(l.L) == 3 {
				r = Val{L: []T{I(0), l.L[1], l.L[2]}}
				l = Val{L: []T{l.L[0], l.L[1], l.L[2]}}
				eq := Eq(l.L[0], I(0))
				if x.Op == "!=" {
					eq = Not(eq)
				}
				return boolVal(eq)
			}
			specFail("comparison of values with different shapes (%v vs %v)", l.Typ, r.Typ)
		}
		var fs []T
		for i := range l.L {
			fs = append(fs, Eq(l.L[i], r.L[i]))
		}
		eq := And(fs...)
		if x.Op == "!=" {
			eq = Not(eq)
		}
		return boolVal(eq)
	}
	if isRealVal(l) || isRealVal(r) {
		a, b := toReal(l).T0(), toReal(r).T0()
		switch x.Op {
		case "<":
			return boolVal(Lt(a, b))
		case "<=":
			return boolVal(Le(a, b))
		case ">":
			return boolVal(Gt(a, b))
		case ">=":
			return boolVal(Ge(a, b))
		case "+", "-", "*", "/":
			return realVal(app("Real", x.Op, a, b))
		}
	}
	a, b := l.T0(), r.T0()
	switch x.Op {
	case "<":
		return boolVal(Lt(a, b))
	case "<=":
		return boolVal(Le(a, b))
	case ">":
		return boolVal(Gt(a, b))
	case ">=":
		return boolVal(Ge(a, b))
	case "+":
		return untypedInt(Add(a, b))
	case "-":
		return untypedInt(Sub(a, b))
	case "*":
		return untypedInt(Mul(a, b))
	case "/":
		return untypedInt(app(SInt, "div", a, b))
	case "%":
		return untypedInt(app(SInt, "mod", a, b))
	case "<<":
		if isNumeral(b.S) {
			return untypedInt(Mul(a, bigT(pow2big(atoi(b.S)))))
		}
		return untypedInt(Mul(a, app(SInt, "pow2", b)))
	case ">>":
		if isNumeral(b.S) {
			return untypedInt(app(SInt, "div", a, bigT(pow2big(atoi(b.S)))))
		}
		return untypedInt(app(SInt, "div", a, app(SInt, "pow2", b)))
	}
	specFail("unsupported operator %s", x.Op)
	return Val{}
}

func toReal(v Val) Val {
	if isRealVal(v) {
		return v
	}
	return realVal(app("Real", "to_real", v.T0()))
}

// selectField: x.f with auto-dereference; supports embedded fields (promoted).
func (s *Session) selectField(se *SpecEnv, base Val, name string) Val {
	if base.Tup != nil {
		specFail("selector on tuple")
	}
	t := base.Typ
	if t == nil {
		specFail("selector .%s on untyped value", name)
	}
	// slices: pseudo-fields
	if _, isSl := t.Underlying().(*types.Slice); isSl && base.Loc == nil {
		switch name {
		case "ptr":
			return untypedInt(base.L[0])
		case "off":
			return untypedInt(base.L[1])
		}
	}
	obj, index, _ := types.LookupFieldOrMethod(t, true, se.pkg, name)
	if obj == nil {
		// unexported field of another package: search manually
		index = findFieldPath(t, name)
		if index == nil {
			specFail("no field %s in %v", name, t)
		}
	} else if _, isVar := obj.(*types.Var); !isVar {
		specFail("%s is not a field of %v", name, t)
	}
	cur := base
	for _, fi := range index {
		cur = s.stepField(se, cur, fi)
	}
	return cur
}

func findFieldPath(t types.Type, name string) []int {
	if pt, ok := t.Underlying().(*types.Pointer); ok {
		t = pt.Elem()
	}
	st, ok := t.Underlying().(*types.Struct)
	if !ok {
		return nil
	}
	for i := 0; i < st.NumFields(); i++ {
		if st.Field(i).Name() == name {
			return []int{i}
		}
	}
	for i := 0; i < st.NumFields(); i++ {
		if st.Field(i).Embedded() {
			if p := findFieldPath(st.Field(i).Type(), name); p != nil {
				return append([]int{i}, p...)
			}
		}
	}
	return nil
}

func (s *Session) stepField(se *SpecEnv, cur Val, fi int) Val {
	if cur.Loc != nil || isPointer(cur.Typ) {
		loc := s.toLoc(cur)
		stt, ok := loc.Typ.Underlying().(*types.Struct)
		if !ok {
			specFail("field of non-struct pointer %v", cur.Typ)
		}
		f := stt.Field(fi)
		nl := *loc
		nl.Path = loc.Path + "." + f.Name()
		nl.Typ = f.Type()
		return s.load(se.st, &nl)
	}
	if _, ok := cur.Typ.Underlying().(*types.Struct); ok {
		return fieldVal(cur, fi)
	}
	specFail("field selection on %v", cur.Typ)
	return Val{}
}

func isPointer(t types.Type) bool {
	if t == nil {
		return false
	}
	_, ok := t.Underlying().(*types.Pointer)
	return ok
}

func (s *Session) indexVal(se *SpecEnv, base, idx Val) Val {
	if base.Typ != nil {
		switch ut := base.Typ.Underlying().(type) {
		case *types.Slice:
			loc := &Loc{Kind: "A", TypeKey: typeKey(ut.Elem()), Ref: base.L[0], Idx: []T{s.sidx(base.L[1], idx.T0())}, Typ: ut.Elem()}
			if base.L[1].S == "0" {
				loc.Idx = []T{idx.T0()}
			}
			return s.load(se.st, loc)
		case *types.Map:
			v, _ := s.mapLookup(se.st, ut, base.T0(), s.keyTerm(idx))
			return v
		case *types.Array:
			v := Val{Typ: ut.Elem()}
			for _, l := range base.L {
				v.L = append(v.L, Select(l, idx.T0()))
			}
			return v
		}
	}
	if len(base.L) == 1 && isArr(base.L[0].Sort) {
		return Val{Typ: nil, L: []T{Select(base.L[0], idx.T0())}}
	}
	specFail("index on %v", base.Typ)
	return Val{}
}

// evalAddr evaluates an lvalue expression (x.f, x.f.g, x.a[i]) to a location.
func (s *Session) evalAddr(se *SpecEnv, e SExpr) (*Loc, error) {
	switch x := e.(type) {
	case *SSel:
		var baseLoc *Loc
		if inner, ok := x.X.(*SSel); ok {
			// could be value path through struct-in-struct: try address first
			if l, err := s.evalAddr(se, inner); err == nil {
				if isPointer(l.Typ) {
					v := s.load(se.st, l)
					baseLoc = s.toLoc(v)
				} else {
					baseLoc = l
				}
			}
		}
		if baseLoc == nil {
			if id, ok := x.X.(*SIdent); ok {
				if _, isVar := s.lookupVar(se, id.Name); !isVar {
					// package-level variable pkg.Name
					p := s.eng.typesPkgByName(id.Name)
					if se.pkg != nil {
						for _, imp := range se.pkg.Imports() {
							if imp.Name() == id.Name {
								p = imp
							}
						}
					}
					if p != nil {
						if o, ok := p.Scope().Lookup(x.Name).(*types.Var); ok {
							return &Loc{Kind: "G", TypeKey: p.Path() + "." + o.Name(), Ref: I(0), Typ: o.Type()}, nil
						}
					}
				}
			}
			if id, ok := x.X.(*SIdent); ok && se.lookupLoc != nil {
				if l, found := se.lookupLoc(id.Name); found && !isPointer(l.Typ) {
					baseLoc = l // a local struct variable that lives in a memory cell
				}
			}
		}
		if baseLoc == nil {
			v := s.evalSpec(se, x.X)
			if v.Loc == nil && !isPointer(v.Typ) {
				return nil, fmt.Errorf("cannot take address through non-pointer %v", v.Typ)
			}
			baseLoc = s.toLoc(v)
		}
		index := findFieldPath(baseLoc.Typ, x.Name)
		if index == nil {
			return nil, fmt.Errorf("no field %s in %v", x.Name, baseLoc.Typ)
		}
		cur := baseLoc
		for k, fi := range index {
			stt, ok := cur.Typ.Underlying().(*types.Struct)
			if !ok {
				return nil, fmt.Errorf("field of non-struct %v", cur.Typ)
			}
			f := stt.Field(fi)
			nl := *cur
			nl.Path = cur.Path + "." + f.Name()
			nl.Typ = f.Type()
			cur = &nl
			if k < len(index)-1 && isPointer(cur.Typ) {
				v := s.load(se.st, cur)
				cur = s.toLoc(v)
			}
		}
		return cur, nil
	case *SIdx:
		base := s.evalSpec(se, x.X)
		idx := s.evalSpec(se, x.I)
		if sl, ok := base.Typ.Underlying().(*types.Slice); ok {
			return &Loc{Kind: "A", TypeKey: typeKey(sl.Elem()), Ref: base.L[0], Idx: []T{s.sidx(base.L[1], idx.T0())}, Typ: sl.Elem()}, nil
		}
		return nil, fmt.Errorf("address of index into %v", base.Typ)
	case *SIdent:
		if se.pkg != nil {
			if o, ok := se.pkg.Scope().Lookup(x.Name).(*types.Var); ok {
				if _, isVar := s.lookupVar(se, x.Name); !isVar {
					return &Loc{Kind: "G", TypeKey: se.pkg.Path() + "." + o.Name(), Ref: I(0), Typ: o.Type()}, nil
				}
			}
		}
		v := s.evalSpec(se, x)
		if v.Loc != nil || isPointer(v.Typ) {
			return s.toLoc(v), nil
		}
	}
	return nil, fmt.Errorf("not an addressable spec expression")
}

func (s *Session) evalCall(se *SpecEnv, x *SCall) Val {
	if x.Recv == nil {
		switch x.Fun {
		case "old":
			n := *se
			n.st = se.old
			return s.evalSpec(&n, x.Args[0])
		case "pre": // pre(E) in a loop invariant: E in the state in which the loop was entered
			if se.pre == nil {
				specFail("pre() outside a loop invariant")
			}
			n := *se
			n.st = se.pre
			return s.evalSpec(&n, x.Args[0])
		case "len":
			v := s.evalSpec(se, x.Args[0])
			if v.Typ != nil {
				switch ut := v.Typ.Underlying().(type) {
				case *types.Slice:
					if s.noDefine == 0 {
						s.assume(Ge(v.L[2], I(0))) // lengths are never negative
					}
					return untypedInt(v.L[2])
				case *types.Basic:
					return untypedInt(s.strlen(v.T0()))
				case *types.Map:
					_, cardN, _, _, _ := s.mapHeaps(se.st, ut)
					card := s.heapGet(se.st, cardN, arrSort(SInt))
					return untypedInt(Ite(Eq(v.T0(), I(0)), I(0), Select(card, v.T0())))
				case *types.Array:
					return untypedInt(I(ut.Len()))
				}
			}
			specFail("len of %v", v.Typ)
		case "ite":
			c := s.evalBool(se, x.Args[0])
			a := s.evalSpec(se, x.Args[1])
			b := s.evalSpec(se, x.Args[2])
			a, b = s.materialize(a), s.materialize(b)
			if isRealVal(a) != isRealVal(b) {
				a, b = toReal(a), toReal(b)
			}
			out := Val{Typ: a.Typ}
			for i := range a.L {
				out.L = append(out.L, Ite(c, a.L[i], b.L[i]))
			}
			return out
		case "min", "max":
			a := s.evalSpec(se, x.Args[0]).T0()
			b := s.evalSpec(se, x.Args[1]).T0()
			if x.Fun == "min" {
				return untypedInt(Ite(Le(a, b), a, b))
			}
			return untypedInt(Ite(Ge(a, b), a, b))
		case "pow2":
			a := s.evalSpec(se, x.Args[0]).T0()
			if isNumeral(a.S) {
				return untypedInt(bigT(pow2big(atoi(a.S))))
			}
			return untypedInt(app(SInt, "pow2", a))
		case "abs":
			a := s.evalSpec(se, x.Args[0]).T0()
			return untypedInt(Ite(Ge(a, I(0)), a, Neg(a)))
		case "int", "int64", "uint64", "int32", "uint32", "uint", "uint8", "byte", "uint16", "int16", "int8":
			v := s.evalSpec(se, x.Args[0])
			if isRealVal(v) {
				return untypedInt(app(SInt, "to_int", v.T0()))
			}
			return untypedInt(v.T0())
		case "real", "float64":
			return toReal(s.evalSpec(se, x.Args[0]))
		case "unixnano":
			v := s.evalSpec(se, x.Args[0])
			return untypedInt(s.unixNano(v))
		case "str": // str(b): the string handle denoted by a []byte value (contents-determined)
			v := s.evalSpec(se, x.Args[0])
			if len(v.L) == 3 {
				h := s.heapGet(se.st, heapName("A", "byte", ""), arrSort(arrSort(SInt)))
				return scalar(types.Typ[types.String], s.uf("bytes2str", SInt, Select(h, v.L[0]), v.L[1], v.L[2]))
			}
			return scalar(types.Typ[types.String], v.T0())
		case "astime": // astime(x): the time.Time boxed in interface value x (e.g. the content of an atomic.Value)
			v := s.evalSpec(se, x.Args[0])
			tt := s.eng.typesPkg("time").Scope().Lookup("Time").Type()
			return s.load(se.st, &Loc{Kind: "F", TypeKey: typeKey(tt), Ref: s.uf("payload", SInt, v.T0()), Typ: tt})
		case "unbox": // unbox(x, T): the value of struct type T boxed in interface value x
			v := s.evalSpec(se, x.Args[0])
			var tn string
			switch a := x.Args[1].(type) {
			case *SIdent:
				tn = a.Name
			case *SSel:
				tn = a.X.(*SIdent).Name + "." + a.Name
			}
			tt := s.resolveType(se.pkg, tn)
			kind := "P"
			if _, isStruct := tt.Underlying().(*types.Struct); isStruct {
				kind = "F"
			}
			return s.load(se.st, &Loc{Kind: kind, TypeKey: typeKey(tt), Ref: s.uf("payload", SInt, v.T0()), Typ: tt})
		case "asptr": // asptr(x, T): the *T stored in interface value x
			v := s.evalSpec(se, x.Args[0])
			var tn string
			switch a := x.Args[1].(type) {
			case *SIdent:
				tn = a.Name
			case *SSel:
				tn = a.X.(*SIdent).Name + "." + a.Name
			}
			tt := s.resolveType(se.pkg, tn)
			return scalar(types.NewPointer(tt), s.uf("payload", SInt, v.T0()))
		case "typeisptr": // typeisptr(x, T): interface value x holds a *T
			v := s.evalSpec(se, x.Args[0])
			var tn string
			switch a := x.Args[1].(type) {
			case *SIdent:
				tn = a.Name
			case *SSel:
				tn = a.X.(*SIdent).Name + "." + a.Name
			}
			tt := types.NewPointer(s.resolveType(se.pkg, tn))
			return boolVal(And(Not(Eq(v.T0(), I(0))), Eq(s.uf("typeof", SInt, v.T0()), s.typeTag(tt)),
				Eq(v.T0(), s.uf("mkiface", SInt, s.typeTag(tt), s.uf("payload", SInt, v.T0()))), Le(s.uf("payload", SInt, v.T0()), se.st.Top)))
		case "zerotime":
			return zeroVal(s.eng.typesPkg("time").Scope().Lookup("Time").Type())
		case "istime": // interface value holds a time.Time (boxed copy, an object that already exists)
			v := s.evalSpec(se, x.Args[0])
			tt := s.eng.typesPkg("time").Scope().Lookup("Time").Type()
			p := s.uf("payload", SInt, v.T0())
			return boolVal(And(Not(Eq(v.T0(), I(0))), Eq(s.uf("typeof", SInt, v.T0()), s.typeTag(tt)), Gt(p, I(0)), Le(p, se.st.Top),
				Eq(v.T0(), s.uf("mkiface", SInt, s.typeTag(tt), p))))
		case "tdiv": // Go's truncated integer division
			a := s.evalSpec(se, x.Args[0]).T0()
			b := s.evalSpec(se, x.Args[1]).T0()
			return untypedInt(s.truncDiv(a, b, types.Typ[types.Int64]))
		case "last": // last("F"): ghost clock value at the most recent call of event function F (0 = never)
			name := x.Args[0].(*SStr).V
			return untypedInt(Select(s.ghostGet(se.st, "evlast"), s.strLit(name)))
		case "count": // count("F"): number of calls of event function F since the function under proof was entered
			name := x.Args[0].(*SStr).V
			return untypedInt(Select(s.ghostGet(se.st, "evcount"), s.strLit(name)))
		case "lastint": // lastint("F"): integer result of the most recent call of event function F
			name := x.Args[0].(*SStr).V
			return untypedInt(Select(s.ghostGet(se.st, "evres"), s.strLit(name)))
		case "callres": // callres("Name", k): value returned by the k-th call (source order) of Name in this function
			name := x.Args[0].(*SStr).V
			k := x.Args[1].(*SNum).V
			if len(x.Args) == 3 {
				// callres("Name", k, i): i-th component of a tuple result
				v, ok := se.fr.callResults[name+"#"+k]
				if !ok {
					specFail("callres(%s,%s): no such call executed yet", name, k)
				}
				i, _ := strconv.Atoi(x.Args[2].(*SNum).V)
				if i >= len(v.Tup) {
					specFail("callres(%s,%s,%d): not a tuple of that size", name, k, i)
				}
				return v.Tup[i]
			}
			if se.fr == nil || se.fr.callResults == nil {
				specFail("callres(%s,%s): no such call executed yet", name, k)
			}
			v, ok := se.fr.callResults[name+"#"+k]
			if !ok {
				specFail("callres(%s,%s): no such call executed yet", name, k)
			}
			return v
		case "lastok": // lastok("F"): boolean result of the most recent call of event function F
			name := x.Args[0].(*SStr).V
			return boolVal(Eq(Select(s.ghostGet(se.st, "evres"), s.strLit(name)), I(1)))
		case "unixsec": // Unix() of a time.Time: floor(unixnano / 1e9)
			v := s.evalSpec(se, x.Args[0])
			return untypedInt(app(SInt, "div", s.unixNano(v), I(1000000000)))
		case "strcat": // strcat(a, b): the concatenation a + b of two strings (the engine's uninterpreted concatenation)
			a := s.evalSpec(se, x.Args[0])
			b := s.evalSpec(se, x.Args[1])
			// (length and left-cancellation facts about strcat are stated once, in the preamble)
			s.declFun("strdrop", []string{SInt, SInt}, SInt)
			s.declFun("strlen", []string{SInt}, SInt)
			return scalar(types.Typ[types.String], s.uf("strcat", SInt, a.T0(), b.T0()))
		case "lastnow": // nanosecond reading of the most recent time.Now() call
			return untypedInt(Select(s.ghostGet(se.st, "evres"), s.strLit("time.Now")))
		case "keycmp": // keycmp(a, b): bytes.Compare on []byte values (three-way order on the denoted strings)
			a := s.evalSpec(se, x.Args[0])
			b := s.evalSpec(se, x.Args[1])
			h := s.heapGet(se.st, heapName("A", "byte", ""), arrSort(arrSort(SInt)))
			sa := s.uf("bytes2str", SInt, Select(h, a.L[0]), a.L[1], a.L[2])
			sb := s.uf("bytes2str", SInt, Select(h, b.L[0]), b.L[1], b.L[2])
			return untypedInt(s.uf("keycmp", SInt, sa, sb))
		case "keyord": // keyord(b): position of a []byte / string key in the total order of keys (a real; "" is least)
			v := s.evalSpec(se, x.Args[0])
			var h T
			if len(v.L) == 3 {
				hp := s.heapGet(se.st, heapName("A", "byte", ""), arrSort(arrSort(SInt)))
				h = s.uf("bytes2str", SInt, Select(hp, v.L[0]), v.L[1], v.L[2])
			} else {
				h = v.T0()
			}
			return Val{Typ: types.Typ[types.Float64], L: []T{s.uf("keyord", "Real", h)}}
		case "held", "rheld": // held(x.mu): the lock is statically held exclusively at this point; rheld: at least shared
			loc, err := s.evalAddr(se, x.Args[0])
			if err != nil {
				specFail("held(): %v", err)
			}
			id := loc.Kind + ":" + loc.TypeKey + ":" + loc.Path
			if x.Fun == "rheld" {
				return boolVal(B(se.st.Locks[id] || se.st.Locks[id+":r"]))
			}
			return boolVal(B(se.st.Locks[id]))
		case "allocated": // allocated(p): reference p denotes an object that exists in this state (or nil)
			v := s.materialize(s.evalSpec(se, x.Args[0]))
			return boolVal(And(Ge(v.L[0], I(0)), Le(v.L[0], se.st.Top)))
		case "visited": // visited(m, k): key k has been produced by the (latest) range over map m in this function
			m := s.materialize(s.evalSpec(se, x.Args[0]))
			kv := s.evalSpec(se, x.Args[1])
			f, ok := s.visitedFormula(se.fr, se.st, m.L[0], s.keyTerm(kv))
			if !ok {
				specFail("visited(): no range over that map is in progress here")
			}
			return boolVal(f)
		case "isnil":
			v := s.materialize(s.evalSpec(se, x.Args[0]))
			return boolVal(Eq(v.L[0], I(0)))
		case "mapval", "mapin": // raw access to a map by key term (the engine's encoding of the key), for frame statements over all keys
			m := s.evalSpec(se, x.Args[0])
			k := s.evalSpec(se, x.Args[1])
			mt, ok := m.Typ.Underlying().(*types.Map)
			if !ok {
				specFail("%s() on non-map", x.Fun)
			}
			v, had := s.mapLookupRaw(se.st, mt, m.T0(), k.T0())
			if x.Fun == "mapin" {
				return boolVal(had)
			}
			return v
		case "in": // in(m, k): key k in map m
			m := s.evalSpec(se, x.Args[0])
			k := s.evalSpec(se, x.Args[1])
			mt, ok := m.Typ.Underlying().(*types.Map)
			if !ok {
				specFail("in() on non-map")
			}
			_, had := s.mapLookup(se.st, mt, m.T0(), s.keyTerm(k))
			return boolVal(had)
		case "typeis": // typeis(x, T): dynamic type of interface value
			v := s.evalSpec(se, x.Args[0])
			id, ok := x.Args[1].(*SIdent)
			var t types.Type
			if ok {
				t = s.resolveType(se.pkg, id.Name)
			} else if sel, ok2 := x.Args[1].(*SSel); ok2 {
				t = s.resolveType(se.pkg, sel.X.(*SIdent).Name+"."+sel.Name)
			} else if un, ok3 := x.Args[1].(*SUn); ok3 {
				_ = un
				specFail("typeis: use typeisptr for pointer types")
			}
			return boolVal(And(Not(Eq(v.T0(), I(0))), Eq(s.uf("typeof", SInt, v.T0()), s.typeTag(t)),
				Eq(v.T0(), s.uf("mkiface", SInt, s.typeTag(t), s.uf("payload", SInt, v.T0()))), Le(s.uf("payload", SInt, v.T0()), se.st.Top)))
		case "gocall": // gocall("pkg.Func", args...): the value the engine gives to a deterministic library call
			name := x.Args[0].(*SStr).V
			var args []T
			for _, a := range x.Args[1:] {
				args = append(args, s.materialize(s.evalSpec(se, a)).L...)
			}
			gr := s.uf("pure:"+name, SInt, args...)
			if strings.HasPrefix(name, "path.Join#0") {
				// path.Join of string literals only: the literal the real function returns (a fact about the library
				// function, stated for the engine's uninterpreted symbol so that code and contract meet)
				if r, ok := s.foldPathJoin(args); ok {
					s.assume(Eq(gr, r))
				}
			}
			return scalar(types.Typ[types.String], gr)
		case "euf", "eufb": // engine-level uninterpreted function by its raw name (e.g. "parseuint")
			name := x.Args[0].(*SStr).V
			var args []T
			for _, a := range x.Args[1:] {
				args = append(args, intLeaves(s.materialize(s.evalSpec(se, a)).L)...)
			}
			if x.Fun == "eufb" {
				return boolVal(s.uf(name, SBool, args...))
			}
			return untypedInt(s.uf(name, SInt, args...))
		case "gocallb": // boolean-valued variant of gocall
			name := x.Args[0].(*SStr).V
			var args []T
			for _, a := range x.Args[1:] {
				args = append(args, s.materialize(s.evalSpec(se, a)).L...)
			}
			return boolVal(s.uf("pure:"+name, SBool, args...))
		case "uf": // uf("name", args...) : uninterpreted integer function (ghost abstraction)
			name := x.Args[0].(*SStr).V
			var args []T
			for _, a := range x.Args[1:] {
				args = append(args, intLeaves(s.materialize(s.evalSpec(se, a)).L)...)
			}
			return untypedInt(s.uf("spec:"+name, SInt, args...))
		case "ufptr": // ufptr("name", T, args...): uninterpreted function whose value is a *T (e.g. an explicit Skolem witness)
			name := x.Args[0].(*SStr).V
			var tn string
			switch a := x.Args[1].(type) {
			case *SIdent:
				tn = a.Name
			case *SSel:
				tn = a.X.(*SIdent).Name + "." + a.Name
			}
			tt := s.resolveType(se.pkg, tn)
			var args []T
			for _, a := range x.Args[2:] {
				args = append(args, intLeaves(s.materialize(s.evalSpec(se, a)).L)...)
			}
			return scalar(types.NewPointer(tt), s.uf("spec:"+name, SInt, args...))
		case "fresharray": // fresharray(s): the backing array of slice s did not exist in the old state (or s is the nil slice)
			v := s.evalSpec(se, x.Args[0])
			if len(v.L) != 3 {
				specFail("fresharray() on a non-slice")
			}
			return boolVal(Or(And(Eq(v.L[2], I(0)), Eq(v.L[0], I(0))), Gt(v.L[0], se.old.Top)))
		case "samearray": // samearray(a, b): slices a and b are windows of one backing array
			a := s.evalSpec(se, x.Args[0])
			b := s.evalSpec(se, x.Args[1])
			if len(a.L) != 3 || len(b.L) != 3 {
				specFail("samearray() on a non-slice")
			}
			return boolVal(Eq(a.L[0], b.L[0]))
		case "runmode": // runmode("M"): the function under proof is being verified in contract mode M
			return boolVal(B(s.runMode == x.Args[0].(*SStr).V))
		case "ufcast": // ufcast(e, T): the integer e seen as a *T reference
			v := s.evalSpec(se, x.Args[0])
			var tn string
			switch a := x.Args[1].(type) {
			case *SIdent:
				tn = a.Name
			case *SSel:
				tn = a.X.(*SIdent).Name + "." + a.Name
			}
			return scalar(types.NewPointer(s.resolveType(se.pkg, tn)), v.T0())
		case "iter": // iter("Name", K, "k"|"n"|"stopped"): final position of a modelled iteration call
			key := x.Args[0].(*SStr).V + "#" + x.Args[1].(*SNum).V
			if x.Args[1].(*SNum).V == "0" {
				key = x.Args[0].(*SStr).V + "#*" // a call inside an inlined callee
			}
			if se.fr == nil || se.fr.iters == nil {
				specFail("iter(%s): no such iteration executed yet", key)
			}
			inf, ok := se.fr.iters[key]
			if !ok {
				specFail("iter(%s): no such iteration executed yet", key)
			}
			switch x.Args[2].(*SStr).V {
			case "k":
				return untypedInt(inf.k)
			case "n":
				return untypedInt(inf.n)
			case "stopped":
				return boolVal(inf.stopped)
			}
			specFail("iter: unknown component")
		case "iterrank": // iterrank("Name", K): inverse of the ghost visit sequence
			key := x.Args[0].(*SStr).V + "#" + x.Args[1].(*SNum).V
			if x.Args[1].(*SNum).V == "0" {
				key = x.Args[0].(*SStr).V + "#*"
			}
			if se.fr == nil || se.fr.iters == nil {
				specFail("iterrank(%s): no such iteration executed yet", key)
			}
			inf, ok := se.fr.iters[key]
			if !ok {
				specFail("iterrank(%s): no such iteration executed yet", key)
			}
			return Val{Typ: nil, L: []T{inf.rk}}
		case "iterseq": // iterseq("Name", K): the ghost visit sequence (index it with [i], cast with ufcast)
			key := x.Args[0].(*SStr).V + "#" + x.Args[1].(*SNum).V
			if x.Args[1].(*SNum).V == "0" {
				key = x.Args[0].(*SStr).V + "#*"
			}
			if se.fr == nil || se.fr.iters == nil {
				specFail("iterseq(%s): no such iteration executed yet", key)
			}
			inf, ok := se.fr.iters[key]
			if !ok {
				specFail("iterseq(%s): no such iteration executed yet", key)
			}
			return Val{Typ: nil, L: []T{inf.seq}}
		case "ufb":
			name := x.Args[0].(*SStr).V
			var args []T
			for _, a := range x.Args[1:] {
				args = append(args, intLeaves(s.materialize(s.evalSpec(se, a)).L)...)
			}
			return boolVal(s.uf("specb:"+name, SBool, args...))
		}
		// pure spec function
		if pf := s.lookupPure(se, x.Fun); pf != nil {
			return s.callPure(se, pf, x.Args)
		}
		// Go function of the package, executed on a scratch copy of the state
		if se.pkg != nil {
			if fn := s.eng.lookupFunc(se.pkg.Path(), x.Fun); fn != nil {
				var args []Val
				for _, a := range x.Args {
					args = append(args, s.evalSpec(se, a))
				}
				return s.callGoPure(se, fn, args)
			}
		}
		specFail("unknown spec function %q", x.Fun)
	}
	// method-like call
	recv := s.evalSpec(se, x.Recv)
	if recv.Typ != nil {
		if fn := s.eng.lookupMethod(recv.Typ, x.Fun); fn != nil {
			args := []Val{recv}
			for _, a := range x.Args {
				args = append(args, s.evalSpec(se, a))
			}
			return s.callGoPure(se, fn, args)
		}
	}
	specFail("unknown method %q in spec", x.Fun)
	return Val{}
}

func (s *Session) lookupPure(se *SpecEnv, name string) *PureFn {
	if se.pkg != nil {
		if pf := s.eng.db.Pures[se.pkg.Path()+"::"+name]; pf != nil {
			return pf
		}
	}
	if pf := s.eng.db.Pures["::"+name]; pf != nil {
		return pf
	}
	// unique by name across packages
	var found *PureFn
	for k, pf := range s.eng.db.Pures {
		if strings.HasSuffix(k, "::"+name) {
			if found != nil && found != pf {
				return nil
			}
			found = pf
		}
	}
	return found
}

func (s *Session) callPure(se *SpecEnv, pf *PureFn, argEs []SExpr) Val {
	if len(argEs) != len(pf.Params) {
		specFail("pure %s: %d arguments expected", pf.Name, len(pf.Params))
	}
	if se.depth > 40 {
		specFail("pure function recursion too deep in %s", pf.Name)
	}
	vars := map[string]Val{}
	ppkg := s.eng.typesPkg(pf.Pkg)
	for i, p := range pf.Params {
		v := s.evalSpec(se, argEs[i])
		// give untyped nil/int arguments the declared type so that field selection works
		if v.Typ == nil || v.Typ == types.Typ[types.UntypedNil] || v.Typ == types.Typ[types.UntypedInt] {
			pt := s.resolveType(ppkg, p.Type)
			if len(shape(pt)) == len(v.L) {
				v.Typ = pt
			}
		}
		vars[p.Name] = v
	}
	n := &SpecEnv{sess: s, pkg: ppkg, vars: vars, st: se.st, old: se.old, fr: se.fr, depth: se.depth + 1}
	if n.pkg == nil {
		n.pkg = se.pkg
	}
	if pf.Opaque && s.noDefine == 0 {
		f := s.evalBool(n, pf.Body)
		if len(f.S) < 200 {
			return boolVal(f)
		}
		if s.opaqueAtoms == nil {
			s.opaqueAtoms = map[string]T{}
		}
		if a, ok := s.opaqueAtoms[f.S]; ok {
			return boolVal(a)
		}
		a := s.fresh("opq_"+pf.Name, SBool)
		s.opaqueAtoms[f.S] = a
		s.opaqueDefs = append(s.opaqueDefs, opaqueDef{pos: len(s.asserts), text: "(assert (= " + a.S + " " + f.S + "))"})
		return boolVal(a)
	}
	return s.evalSpec(n, pf.Body)
}

type opaqueDef struct {
	pos  int
	text string
}

// callGoPure runs a real Go function of /repo symbolically on a scratch copy of the state and
// returns its result; any state change it makes is discarded ("the code is its own specification").
func (s *Session) callGoPure(se *SpecEnv, fn *ssa.Function, args []Val) Val {
	if s.noDefine > 0 {
		specFail("Go function %s cannot be called under a quantifier", fn.String())
	}
	if len(fn.Blocks) == 0 {
		specFail("Go function %s has no body", fn.String())
	}
	scratch := se.st.clone()
	scratch.Reach = TTrue
	fr := &Frame{sess: s, fn: fn, params: args, depth: 1, stack: []*ssa.Function{fn}, oblPfx: "spec:" + fn.Name(), nSafety: map[string]int{}}
	saved := s.suppressObl
	s.suppressObl = true
	res, out := s.execBody(fr, scratch)
	s.suppressObl = saved
	if out == nil {
		specFail("Go function %s never returns", fn.String())
	}
	s.inlined[fn.String()] = true
	return packResults(fn.Signature.Results(), res)
}

// patTerm: a trigger must be a plain term; for a compound boolean such as in(m,k) = (and (not (= m 0)) (select ..))
// the first select/application conjunct is used.
func patTerm(t string) string {
	t = stripIte(t)
	for strings.HasPrefix(t, "(and ") || strings.HasPrefix(t, "(not ") {
		inner := t[5 : len(t)-1]
		parts := splitSexp(inner)
		pick := ""
		for _, p := range parts {
			if strings.HasPrefix(p, "(select ") {
				pick = p
				break
			}
		}
		if pick == "" {
			for _, p := range parts {
				if strings.HasPrefix(p, "(") && !strings.HasPrefix(p, "(not ") && !strings.HasPrefix(p, "(= ") {
					pick = p
					break
				}
			}
		}
		if pick == "" {
			return t
		}
		t = pick
	}
	return t
}

func splitSexp(s string) []string {
	var out []string
	depth, start := 0, -1
	inBar := false
	for i := 0; i < len(s); i++ {
		c := s[i]
		if c == '|' {
			inBar = !inBar
			if start < 0 {
				start = i
			}
			continue
		}
		if inBar {
			continue
		}
		switch c {
		case '(':
			if start < 0 {
				start = i
			}
			depth++
		case ')':
			depth--
			if depth == 0 && start >= 0 {
				out = append(out, s[start:i+1])
				start = -1
			}
		case ' ':
			if depth == 0 && start >= 0 {
				out = append(out, s[start:i])
				start = -1
			}
		default:
			if start < 0 {
				start = i
			}
		}
	}
	if start >= 0 {
		out = append(out, s[start:])
	}
	return out
}

// stripIte replaces every (ite c a b) inside a trigger term by its then-branch a (triggers must not contain
// connectives; a map lookup m[k] is (ite present (select ..) zero) and its natural trigger is the select).
func stripIte(t string) string {
	if !strings.Contains(t, "(ite ") {
		return t
	}
	if !strings.HasPrefix(t, "(") {
		return t
	}
	parts := splitSexp(t[1 : len(t)-1])
	if len(parts) == 4 && parts[0] == "ite" {
		return stripIte(parts[2])
	}
	for i := range parts {
		parts[i] = stripIte(parts[i])
	}
	return "(" + strings.Join(parts, " ") + ")"
}

// evalGoal evaluates a clause that is about to be PROVED: universal quantifiers in positive position (at the top,
// under a conjunction, in the consequent of an implication, inside a transparent pure predicate) are replaced by
// fresh constants. The solvers then face a ground goal and only have to instantiate the assumptions.
func (s *Session) evalGoal(se *SpecEnv, e SExpr) T {
	switch x := e.(type) {
	case *SQuant:
		if x.Forall {
			vars := map[string]Val{}
			for i, vn := range x.Vars {
				sort := SInt
				var typ types.Type = types.Typ[types.UntypedInt]
				if x.Sorts[i] == "bool" {
					sort = SBool
					typ = types.Typ[types.Bool]
				} else if x.Sorts[i] != "int" {
					typ = s.resolveType(se.pkg, x.Sorts[i])
				}
				c := s.fresh("sk_"+vn, sort)
				vars[vn] = Val{Typ: typ, L: []T{c}}
			}
			return s.evalGoal(se.with(vars), x.Body)
		}
	case *SBin:
		switch x.Op {
		case "==>":
			return Imp(s.evalBool(se, x.L), s.evalGoal(se, x.R))
		case "&&":
			return And(s.evalGoal(se, x.L), s.evalGoal(se, x.R))
		}
	case *SCall:
		if x.Recv == nil {
			if pf := s.lookupPure(se, x.Fun); pf != nil && !pf.Opaque && len(x.Args) == len(pf.Params) && se.depth < 40 {
				vars := map[string]Val{}
				ppkg := s.eng.typesPkg(pf.Pkg)
				for i, p := range pf.Params {
					v := s.evalSpec(se, x.Args[i])
					if v.Typ == nil || v.Typ == types.Typ[types.UntypedNil] || v.Typ == types.Typ[types.UntypedInt] {
						pt := s.resolveType(ppkg, p.Type)
						if len(shape(pt)) == len(v.L) {
							v.Typ = pt
						}
					}
					vars[p.Name] = v
				}
				n := &SpecEnv{sess: s, pkg: ppkg, vars: vars, st: se.st, old: se.old, pre: se.pre, fr: se.fr, depth: se.depth + 1}
				if n.pkg == nil {
					n.pkg = se.pkg
				}
				return s.evalGoal(n, pf.Body)
			}
		}
	}
	return s.evalBool(se, e)
}
