// Bounded stand-in (NOT a proof) for pkg/btree, which the C06/C07/C17 contracts ASSUME to be an ordered set with rank
// queries (its node algorithms - splits, merges, copy-on-write, the free list, PD's own subtree-size `indices` - are
// outside the reach of the contract verifier). The B-tree is compared with a sorted-slice model over grow / shrink /
// regrow histories: for every degree in {2, 3, 4, 32 (the degree the region index uses is 64; 32 keeps the bound small)}
// and every triple (n, m, k) on a grid, n keys are inserted (in three different orders), the tree is shrunk to m keys
// (deleting from the front, the back or every other key) and grown again to k keys; after each phase Len, Get, Has,
// GetAt(i) for every i, GetWithIndex for every key, Min, Max and the ascending / descending visits from every pivot
// must agree with the model. VERIF_BOUND=quick: sizes up to 40 (160 for degree 32) on a coarse grid; thorough: a
// finer grid and sizes up to 120 (400 for degree 32).
package btree

import (
	"os"
	"sort"
	"testing"
)

type verifInt int

func (a verifInt) Less(b Item) bool { return a < b.(verifInt) }

func verifCompare(t *testing.T, what string, tr *BTree, model []int) {
	sort.Ints(model)
	if tr.Len() != len(model) {
		t.Fatalf("%s: Len = %d, model has %d", what, tr.Len(), len(model))
	}
	for i, k := range model {
		if it := tr.GetAt(i); it == nil || int(it.(verifInt)) != k {
			t.Fatalf("%s: GetAt(%d) = %v, model says %d", what, i, it, k)
		}
		it, idx := tr.GetWithIndex(verifInt(k))
		if it == nil || int(it.(verifInt)) != k || idx != i {
			t.Fatalf("%s: GetWithIndex(%d) = (%v, %d), model says rank %d", what, k, it, idx, i)
		}
		if !tr.Has(verifInt(k)) || tr.Get(verifInt(k)) == nil {
			t.Fatalf("%s: key %d not found", what, k)
		}
	}
	if len(model) > 0 {
		if int(tr.Min().(verifInt)) != model[0] || int(tr.Max().(verifInt)) != model[len(model)-1] {
			t.Fatalf("%s: Min/Max = %v/%v, model says %d/%d", what, tr.Min(), tr.Max(), model[0], model[len(model)-1])
		}
		if it, _ := tr.GetWithIndex(verifInt(model[len(model)-1] + 1)); it != nil {
			t.Fatalf("%s: found a key that was never inserted", what)
		}
	}
	// ordered visits from a few pivots (all pivots for small trees)
	step := 1
	if len(model) > 60 {
		step = len(model) / 30
	}
	for p := 0; p < len(model); p += step {
		var got []int
		tr.AscendGreaterOrEqual(verifInt(model[p]), func(i Item) bool { got = append(got, int(i.(verifInt))); return true })
		if len(got) != len(model)-p {
			t.Fatalf("%s: ascending visit from %d yields %d items, model says %d", what, model[p], len(got), len(model)-p)
		}
		for j := range got {
			if got[j] != model[p+j] {
				t.Fatalf("%s: ascending visit from %d: item %d is %d, model says %d", what, model[p], j, got[j], model[p+j])
			}
		}
		got = got[:0]
		tr.DescendLessOrEqual(verifInt(model[p]), func(i Item) bool { got = append(got, int(i.(verifInt))); return true })
		if len(got) != p+1 {
			t.Fatalf("%s: descending visit from %d yields %d items, model says %d", what, model[p], len(got), p+1)
		}
		for j := range got {
			if got[j] != model[p-j] {
				t.Fatalf("%s: descending visit from %d: item %d is %d, model says %d", what, model[p], j, got[j], model[p-j])
			}
		}
	}
}

func verifOrder(n, order int) []int {
	keys := make([]int, n)
	for i := range keys {
		switch order {
		case 0:
			keys[i] = 2 * i // ascending
		case 1:
			keys[i] = 2 * (n - 1 - i) // descending
		default:
			keys[i] = 2 * ((i*7919 + 13) % n) // scattered (7919 is prime and larger than every n used: a permutation)
		}
	}
	return keys
}

func TestVerifBoundedBTreeModel(t *testing.T) {
	thorough := os.Getenv("VERIF_BOUND") == "thorough" || os.Getenv("VERIF_TIER") == "thorough"
	histories := 0
	for _, degree := range []int{2, 3, 4, 32} {
		maxN, grid := 40, 7
		if degree == 32 {
			maxN, grid = 160, 39
		}
		if thorough {
			maxN, grid = 120, 5
			if degree == 32 {
				maxN, grid = 400, 33
			}
		}
		for n := 1; n <= maxN; n += grid {
			for m := 0; m <= n; m += grid {
				for k := m; k <= maxN; k += 2 * grid {
					for order := 0; order < 3; order++ {
						for del := 0; del < 3; del++ {
							tr := New(degree)
							var model []int
							for _, key := range verifOrder(n, order) {
								tr.ReplaceOrInsert(verifInt(key))
								model = append(model, key)
							}
							verifCompare(t, "after growing", tr, model)
							sort.Ints(model)
							for len(model) > m {
								var victim int
								switch del {
								case 0:
									victim = 0
								case 1:
									victim = len(model) - 1
								default:
									victim = (len(model) / 2)
								}
								if tr.Delete(verifInt(model[victim])) == nil {
									t.Fatalf("degree %d: Delete(%d) did not find the key", degree, model[victim])
								}
								model = append(model[:victim], model[victim+1:]...)
							}
							verifCompare(t, "after shrinking", tr, model)
							next := 1 // odd keys: between and beyond the even ones
							for len(model) < k {
								tr.ReplaceOrInsert(verifInt(next))
								model = append(model, next)
								next += 2
							}
							verifCompare(t, "after growing again", tr, model)
							histories++
						}
					}
				}
			}
		}
	}
	t.Logf("%d grow/shrink/regrow histories compared with the model", histories)
}
