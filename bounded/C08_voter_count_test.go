// Replay harness for the voter-count lower bound of the builder's step-by-step path (obligations of
// operator.Builder.peerPlan / buildStepsWithoutJointConsensus named voter-count...): executing the steps of an operator
// in order never lets the number of voters fall below min(voters of the origin, voters of the request).
// Sweep: every origin/target role assignment over 4 stores (absent, voter, learner), every origin leader, without joint
// consensus steps, in both feature levels: JointConsensus feature off (no demotion steps) and JointConsensus feature on
// with enable-joint-consensus=false (single demotions allowed, no joint steps). Injected via -overlay.
package operator

import (
	"context"
	"testing"

	"github.com/pingcap/kvproto/pkg/metapb"
	"github.com/tikv/pd/pkg/mock/mockcluster"
	"github.com/tikv/pd/server/config"
	"github.com/tikv/pd/server/core"
	"github.com/tikv/pd/server/versioninfo"
)

func verifVoters(peers []*metapb.Peer) int {
	n := 0
	for _, p := range peers {
		if !core.IsLearner(p) {
			n++
		}
	}
	return n
}

func verifApplyStepVC(t *testing.T, region *core.RegionInfo, step OpStep) *core.RegionInfo {
	switch s := step.(type) {
	case AddLearner:
		return region.Clone(core.WithAddPeer(&metapb.Peer{Id: s.PeerID, StoreId: s.ToStore, Role: metapb.PeerRole_Learner}))
	case PromoteLearner:
		return region.Clone(core.WithPromoteLearner(s.PeerID))
	case DemoteFollower:
		return region.Clone(func(r *core.RegionInfo) {
			for _, p := range r.GetPeers() {
				if p.GetId() == s.PeerID {
					p.Role = metapb.PeerRole_Learner
				}
			}
		})
	case RemovePeer:
		return region.Clone(core.WithRemoveStorePeer(s.FromStore))
	case TransferLeader:
		return region.Clone(core.WithLeader(region.GetStorePeer(s.ToStore)))
	}
	t.Fatalf("unexpected step %T %v", step, step)
	return nil
}

func TestVerifReplayVoterCount(t *testing.T) {
	for _, featureOn := range []bool{false, true} {
		ctx, cancel := context.WithCancel(context.Background())
		tc := mockcluster.NewCluster(ctx, config.NewTestOptions())
		if featureOn {
			cfg := tc.GetScheduleConfig().Clone()
			cfg.EnableJointConsensus = false
			tc.SetScheduleConfig(cfg)
		} else {
			tc.DisableFeature(versioninfo.JointConsensus)
		}
		for i := uint64(1); i <= 4; i++ {
			tc.AddRegionStore(i, 0)
		}
		const stores = 4
		pow := 81
		cases, bad := 0, 0
		for oc := 0; oc < pow; oc++ {
			var origin []*metapb.Peer
			for s, c := uint64(1), oc; s <= stores; s, c = s+1, c/3 {
				switch c % 3 {
				case 1:
					origin = append(origin, &metapb.Peer{Id: 10 + s, StoreId: s})
				case 2:
					origin = append(origin, &metapb.Peer{Id: 10 + s, StoreId: s, Role: metapb.PeerRole_Learner})
				}
			}
			for _, leader := range origin {
				if core.IsLearner(leader) {
					continue
				}
				for tcode := 0; tcode < pow; tcode++ {
					target := map[uint64]*metapb.Peer{}
					var tl []*metapb.Peer
					for s, c := uint64(1), tcode; s <= stores; s, c = s+1, c/3 {
						switch c % 3 {
						case 1:
							target[s] = &metapb.Peer{StoreId: s}
							tl = append(tl, target[s])
						case 2:
							target[s] = &metapb.Peer{StoreId: s, Role: metapb.PeerRole_Learner}
							tl = append(tl, target[s])
						}
					}
					region := core.NewRegionInfo(&metapb.Region{Id: 1, Peers: origin}, leader)
					op, err := NewBuilder("replay", tc, region).SetPeers(target).Build(0)
					if err != nil {
						continue
					}
					cases++
					min := verifVoters(origin)
					if v := verifVoters(tl); v < min {
						min = v
					}
					for i := 0; i < op.Len(); i++ {
						if err := op.Step(i).CheckSafety(region); err != nil {
							t.Fatalf("JointConsensus feature on=%v, origin %v leader store %d, request %v: step %d (%v) of %v is refused when its turn comes: %v", featureOn, origin, leader.StoreId, tl, i, op.Step(i), op, err)
						}
						region = verifApplyStepVC(t, region, op.Step(i))
						if v := verifVoters(region.GetPeers()); v < min {
							bad++
							if bad <= 5 {
								t.Errorf("JointConsensus feature on=%v, origin %v leader store %d, request %v: after step %d (%v) of %v the region has %d voter(s), fewer than min(origin, request) = %d",
									featureOn, origin, leader.StoreId, tl, i, op.Step(i), op, v, min)
							}
							break
						}
					}
					if bad == 0 {
						if len(region.GetPeers()) != len(target) {
							t.Fatalf("JointConsensus feature on=%v, origin %v leader store %d, request %v: final placement %v", featureOn, origin, leader.StoreId, tl, region.GetMeta())
						}
						for st, p := range target {
							q := region.GetStorePeer(st)
							if q == nil || core.IsLearner(q) != core.IsLearner(p) {
								t.Fatalf("JointConsensus feature on=%v, origin %v leader store %d, request %v: final placement %v", featureOn, origin, leader.StoreId, tl, region.GetMeta())
							}
						}
					}
				}
			}
		}
		t.Logf("JointConsensus feature on=%v: %d operators executed step by step, %d let the voter count dip", featureOn, cases, bad)
		cancel()
	}
}
