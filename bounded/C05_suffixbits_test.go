// Bounded stand-in (NOT a proof) for tso.CalSuffixBits, whose body uses math.Log2 / math.Ceil and is outside
// the reach of the SMT solvers: for every maximal suffix m the width b = CalSuffixBits(m) must satisfy
// 2^b > m (every suffix 0..m fits) and, for b > 0, 2^(b-1) <= m (no wasted bit).
// VERIF_BOUND=quick: all m within 2 of a power of two, plus 0..2^16; thorough: every m in [0, 2^31-2].
package tso

import (
	"os"
	"runtime"
	"sync"
	"sync/atomic"
	"testing"
)

func verifSuffixBitsOK(m int32) bool {
	b := CalSuffixBits(m)
	if b < 0 || b > 31 {
		return false
	}
	if int64(1)<<uint(b) <= int64(m) {
		return false
	}
	if b > 0 && int64(1)<<uint(b-1) > int64(m) {
		return false
	}
	return true
}

func TestVerifBoundedCalSuffixBits(t *testing.T) {
	var bad int64 = -1
	check := func(m int32) {
		if !verifSuffixBitsOK(m) {
			atomic.CompareAndSwapInt64(&bad, -1, int64(m))
		}
	}
	for k := uint(0); k < 31; k++ {
		for d := int64(-2); d <= 2; d++ {
			if m := int64(1)<<k + d; m >= 0 && m <= 1<<31-2 {
				check(int32(m))
			}
		}
	}
	for m := int32(0); m < 1<<16; m++ {
		check(m)
	}
	if os.Getenv("VERIF_BOUND") == "thorough" {
		n := runtime.NumCPU()
		var wg sync.WaitGroup
		const top = int64(1)<<31 - 2
		for w := 0; w < n; w++ {
			wg.Add(1)
			go func(w int) {
				defer wg.Done()
				for m := int64(w); m <= top; m += int64(n) {
					check(int32(m))
				}
			}(w)
		}
		wg.Wait()
	}
	if bad >= 0 {
		t.Fatalf("CalSuffixBits(%d) = %d does not fit / wastes a bit", bad, CalSuffixBits(int32(bad)))
	}
}
