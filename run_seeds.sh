#!/bin/bash
# usage: run_seeds.sh [Cxx ...]  -- applies each stored seeded change to /repo, runs the property's quick check, undoes the change.
# Writes /verif/seeded/RESULTS.txt (one block per seed). Evidence files are restored afterwards (they must describe the unchanged tree).
export GOFLAGS=-mod=mod GOPROXY=off GOSUMDB=off GOTOOLCHAIN=local
cd /verif
ids=${@:-$(ls seeded | grep '^C')}
out=/verif/seeded/RESULTS.txt
[ $# -eq 0 ] && : > $out
for id in $ids; do
  prop=${id:0:3}
  if [ -n "$(git -C /repo status --porcelain)" ]; then echo "/repo not clean"; exit 2; fi
  bak=$(mktemp); cp evidence/$prop.json $bak
  if ! git -C /repo apply /verif/seeded/$id/patch.diff; then echo "== $id: PATCH DOES NOT APPLY" >> $out; continue; fi
  ./check $prop quick > /tmp/seedrun_$id.log 2>&1; rc=$?
  git -C /repo checkout -- .
  cp $bak evidence/$prop.json; rm -f $bak
  { echo "== $id: check exit=$rc"; grep -E "^(FAILED|UNDECIDED|VACUOUS|VIOLATION|KNOWN-FINDING)" /tmp/seedrun_$id.log | cut -c1-260; } >> $out
  rm -f /tmp/seedrun_$id.log
done
echo done
