#!/bin/bash
# usage: run_seeds_par.sh <worktree-dir> <result-file> <seed ids...>
# Like run_seeds.sh, but in a scratch worktree of /repo's HEAD (contract files included) so that several workers can run
# side by side (each worker must get seeds of DIFFERENT properties: /verif/out/<prop> and evidence/<prop>.json are shared).
# Evidence files are restored afterwards.
export GOFLAGS=-mod=mod GOPROXY=off GOSUMDB=off GOTOOLCHAIN=local
wt=$1; out=$2; shift 2
cd /verif
: > $out
for id in "$@"; do
  prop=${id:0:3}
  bak=$(mktemp); cp evidence/$prop.json $bak
  if ! git -C $wt apply /verif/seeded/$id/patch.diff; then echo "== $id: PATCH DOES NOT APPLY" >> $out; continue; fi
  /verif/bin/govc check --repo $wt --prop $prop --tier quick > /tmp/seedrun_$id.log 2>&1; rc=$?
  git -C $wt checkout -- .
  cp $bak evidence/$prop.json; rm -f $bak
  { echo "== $id: check exit=$rc"; grep -E "^(FAILED|UNDECIDED|VACUOUS|VIOLATION|KNOWN-FINDING)" /tmp/seedrun_$id.log | cut -c1-260; } >> $out
  rm -f /tmp/seedrun_$id.log
done
echo done >> $out.done
